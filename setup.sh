#!/bin/sh
# Build step of the verification framework: everything is interpreted (Python + TLA+); just sanity-check the tools.
set -e
cd "$(dirname "$0")"
command -v tlc >/dev/null
test -x /venv/bin/python
mkdir -p evidence replay .work .cache
echo "setup ok"
