#!/usr/bin/env python3
"""dev-time: print the markdown rows of DESIGN.md 0.5 for the second / third wave from seeded/*/meta.json"""
import glob, json, os
for d in sorted(glob.glob('/verif/seeded/*')):
    i = os.path.basename(d)
    if len(i) == 3:
        continue
    p = os.path.join(d, 'meta.json')
    if not os.path.exists(p):
        print('| %s | (no meta yet) | | | |' % i)
        continue
    m = json.load(open(p))
    print('| %s | %s | %s | %s |' % (i, m.get('where', '').replace('|', '/'), m.get('needs', '').replace('|', '/'), m.get('detected_by', 'pending').replace('|', '/')))
