# -*- coding: utf-8 -*-
"""./selftest/selftest.py : guards against a vacuous or unbound specification.

1. every spec mutant (one mechanism switched off) must make TLC report the named invariant;
2. for every trace specification: a recorded execution of the real code is accepted (no verdict), and the same
   record with one field corrupted / one event removed is rejected with the expected clause.
Exit 0 when everything behaves as expected, 1 otherwise.  (Uses /repo's working tree; writes only under /verif/.work.)
"""
import copy
import json
import os
import shutil
import subprocess
import sys

HERE = os.path.dirname(os.path.abspath(__file__))
VERIF = os.path.dirname(HERE)
sys.path.insert(0, os.path.join(VERIF, "harness"))
os.environ.setdefault("VSG_VERIF_TRACE", "1")
import tlc  # noqa: E402

PY = "/venv/bin/python"
WD = os.path.join(VERIF, ".work", "selftest")
REPO = os.environ.get("VSG_VERIF_REPO", "/repo")
FAIL = []


def expect(name, ok, detail=""):
    print(("ok   " if ok else "FAIL ") + name + ("" if ok else "  -- " + str(detail)[:300]))
    if not ok:
        FAIL.append(name)


MUTANTS = [
    ("FixPipeline", "Mutant_FixPipeline_Forward.cfg", "C18_StepIsSumOfHunks"), ("FixPipeline", "Mutant_FixPipeline_Overlap.cfg", "C18_StepIsSumOfHunks"),
    ("FixPipeline", "Mutant_FixPipeline_NoRemap.cfg", "C18_IndexAgrees"), ("FixPipeline", "Mutant_FixPipeline_CaseLit.cfg", "C01_CodePreserved"),
    ("CodeTags", "Mutant_CodeTags_EqAll.cfg", "C11_SuppressedAgrees"), ("WriteBack", "Mutant_WriteBack_NoChmod.cfg", "C16_ModeKept"),
    ("WriteBack", "Mutant_WriteBack_InPlace.cfg", "C16_Atomic"), ("CheckReport", "Mutant_CheckReport_BreakInSubphase.cfg", "C13_GatedIsPrefix"),
    ("Config", "Mutant_Config_MostSpecificGroup.cfg", "C12_Precedence"), ("Config", "Known_Config_WholeEntry.cfg", "C12_Precedence"),
    ("FixSchedule", "Mutant_FixSchedule_LinesIgnored.cfg", "Inv_C20_OnlyListed"), ("FixSchedule", "Mutant_FixSchedule_OffByOne.cfg", "Inv_C13_FixPhase"),
    ("ParseEmit", "Mutant_ParseEmit_AdjacentWords.cfg", "C08_WriteIsReadIffCanonical"), ("Batch", "Mutant_Batch_Leak.cfg", "C15_LeakConstant"), ("Relayout", "Mutant_Relayout_Layout.cfg", "C05_RolesInvariant"),
    ("Main", "Mutant_Main_Unordered.cfg", "C15_OutputOrder"), ("Main", "Mutant_Main_ExitLast.cfg", "C14_ExitIsOr"), ("Main", "Known_Main_StopRace.cfg", "C15_DiskAsSerial"),
    ("Converge", "Mutant_Converge_NotIdempotent.cfg", "C09_SecondFixChangesNothing"), ("Converge", "Mutant_Converge_NoDiscipline.cfg", "C09_SecondFixChangesNothing"),
    ("Converge", "Mutant_Converge_NotCanonical.cfg", "C09_SecondFixChangesNothing"), ("LexerImpl", "Mutant_Lexer_PipeNotDelimiter.cfg", "C05_DelimitersSeparate"),
]


def spec_mutants():
    for module, cfg, inv in MUTANTS:
        res = tlc.model_check(module, cfg, workers=8, timeout=900, name="selftest_" + cfg)
        expect("spec mutant %s -> %s" % (cfg, inv), ("Invariant %s is violated" % inv) in res.out, res.error or res.out[-300:])


def drive(driver, job, name):
    jp = os.path.join(WD, name + ".job.json")
    json.dump(job, open(jp, "w"))
    env = dict(os.environ, VSG_VERIF_TRACE="1", PYTHONHASHSEED="0", PYTHONWARNINGS="ignore")
    p = subprocess.run([PY, os.path.join(VERIF, "harness", driver), jp], env=env, stdout=subprocess.PIPE, stderr=subprocess.STDOUT)
    if p.returncode != 0 or not os.path.exists(job["out"]):
        expect("driver " + driver, False, p.stdout.decode()[-400:])
        return None
    return json.load(open(job["out"]))


def verdicts(data, module, name):
    p = os.path.join(WD, name + ".json")
    json.dump(data, open(p, "w"))
    res = tlc.validate_shards([p], module=module)[0][1]
    return res, sorted(set(c for _, _, c in res.verdicts))


def binding(module, base, name, corruptions, key="recs", allowed=()):
    """base must validate without (unexpected) verdicts; every corruption must produce its expected clause"""
    res, vs = verdicts(base, module, name + "_good")
    unexpected = [v for v in vs if v not in allowed]
    expect("%s accepts the recorded execution" % module, res.ok and not unexpected, (res.error, unexpected))
    for cname, fn, want in corruptions:
        d = copy.deepcopy(base)
        try:
            fn(d)
        except Exception as e:
            expect("%s corruption %s" % (module, cname), False, "could not corrupt: %r" % e)
            continue
        res, vs = verdicts(d, module, name + "_" + cname)
        expect("%s rejects %s (%s)" % (module, cname, "|".join(want)), any(w in vs for w in want), vs)


def fix_trace():
    job = {"out": os.path.join(WD, "fix.json"), "work": os.path.join(WD, "fixw"), "probe": True, "reparse": True, "rounds": 2,
           "items": [{"tid": 1, "path": os.path.join(REPO, "tests/styles/code_examples/spi_master.vhd"), "name": "spi_master.vhd", "args": ["--fix"], "tag": "default"}]}
    base = drive("runfix.py", job, "fix")
    if base is None:
        return
    ev = base["traces"][0]["ev"]
    fixes = [i for i, e in enumerate(ev) if e["e"] == "Fix" and e["win"]]
    ws = [i for i in fixes if ev[i]["cls"] == "WS"]
    st = [i for i in fixes if ev[i]["cls"] == "STRUCT"]

    def code_tok(d, idx):
        e = d["traces"][0]["ev"][idx]
        for w in e["win"]:
            for t in w["post"]:
                if t[1] == 1:
                    t[3] += 7
                    t[4] += 7
                    return
        raise ValueError("no code token in window")

    def drop(d, idx):
        del d["traces"][0]["ev"][idx]

    def after(d, idx):
        d["traces"][0]["ev"][idx]["afterU"][0] += 999999

    def line(d, idx):
        e = d["traces"][0]["ev"][idx]
        e["kept"] = [x + 1 for x in e["kept"]]

    def start(d, idx):
        d["traces"][0]["ev"][idx]["win"][0]["s"] += 1

    binding("FixTrace", base, "fix", [
        ("code token changed by a whitespace rule", lambda d: code_tok(d, ws[0]), ["C03_WsOnly", "C01_CodeOnlyByStructural"]),
        ("Fix event removed", lambda d: drop(d, fixes[len(fixes) // 2]), ["C18_WindowsExact", "C18_NoUnobservedChange", "B_AfterIdentity"]),
        ("identity of the list after the fix", lambda d: after(d, fixes[0]), ["B_AfterIdentity"]),
        ("reported line shifted", lambda d: line(d, ws[-1]), ["C07_ChangedButNotReported", "C07_ReportedButUnchanged"]),
        ("window start shifted", lambda d: start(d, st[0] if st else fixes[0]), ["C18_WindowsExact", "C18_ToiIsSlice"]),
    ], key="traces", allowed=("C18_ToiIsSlice",))


def lexer_trace():
    job = {"out": os.path.join(WD, "lex.json"), "mode": "strings", "strings": ['a <= x"ff" -- c', "b := 'a' & \"s\";", "1.5e3 ?<= \\ext\\"], "first_id": 0}
    base = drive("lexrun.py", job, "lex")
    if base is None:
        return

    def lose(d):
        d["recs"][0]["passes"][5][0] = d["recs"][0]["passes"][5][0] + [3]

    def regroup(d):
        p = d["recs"][1]["passes"][9]
        p[0:2] = [p[0] + p[1]]

    binding("LexerTrace", base, "lex", [("a character added by a pass", lose, ["C04_Lossless"]), ("final chunks regrouped", regroup, ["DRIFT_PassDiffersFromModel", "C04_FinalEqualsCreate"])])


def tags_trace():
    job = {"out": os.path.join(WD, "tag.json"), "work": os.path.join(WD, "tagw"), "mode": "stamps", "maxlen": 2, "shard": 0, "nshards": 1, "first_id": 0}
    base = drive("tagrun.py", job, "tag")
    if base is None:
        return

    def flip(d):
        for r in d["recs"]:
            for i, l in enumerate(r["lines"]):
                if l["k"] == "code" and i > 0 and r["lines"][i - 1]["k"] == "off":
                    r["obs"][i] = []
                    return
        raise ValueError

    binding("CodeTagsTrace", base, "tag", [("suppression after vsg_off not observed", flip, ["C11_SuppressedAgrees"])])


def wb_trace():
    job = {"out": os.path.join(WD, "wb.json"), "work": os.path.join(WD, "wbw"), "next_id": 10, "errors": {},
           "scenarios": [{"id": 1, "src": os.path.join(REPO, "tests/styles/code_examples/comments.vhd"), "mode": 0o664, "umask": 0o022, "backup": True, "stale": 0, "args": ["--fix", "--backup"], "kind": "base"}]}
    base = drive("wbrun.py", job, "wb")
    if base is None:
        return

    def nochmod(d):
        r = d["recs"][0]
        r["ev"] = [e for e in r["ev"] if not (e["c"] == "chmod" and e["obj"] == "tmp")]

    def inplace(d):
        r = d["recs"][0]
        for e in r["ev"]:
            if e["obj"] == "tmp" and e["c"] in ("openw", "write"):
                e["obj"] = "target"

    def mode(d):
        d["recs"][0]["final"]["target"]["mode"] = 0o600

    binding("WriteBackTrace", base, "wb", [("chmod of the temporary file removed", nochmod, ["C16_SyscallOrder", "C16_ModeKept"]), ("written in place", inplace, ["C16_Atomic", "C16_SyscallOrder"]),
                                           ("final mode differs", mode, ["C16_ModeKept", "B_FinalDiskMatchesModel"])])


def check_trace():
    item = [{"path": os.path.join(REPO, "tests/styles/code_examples/spi_master.vhd"), "name": "spi_master.vhd"}]
    base = drive("chkrun.py", {"out": os.path.join(WD, "gat.json"), "work": os.path.join(WD, "gatw"), "mode": "gating", "seed": 1, "first_id": 0, "cfgs": 1, "items": item}, "gat")
    if base is None:
        return

    def drop_reported(d):
        for run in d["recs"][0]["runs"]:
            if run["reported"]:
                run["reported"].pop()
                return
        raise ValueError

    def last(d):
        d["recs"][0]["runs"][0]["last"] += 1

    binding("CheckTrace", base, "gat", [("a reported violation removed", drop_reported, ["C13_ReportedAsSpecified"]), ("last phase shifted", last, ["C13_LastPhase"])])


def config_trace():
    job = {"out": os.path.join(WD, "cfg.json"), "work": os.path.join(WD, "cfgw"), "mode": "stack", "first_id": 0, "input": os.path.join(REPO, "tests/styles/code_examples/comments.vhd"),
           "stacks": [{"name": "s", "sources": [{"global": 1, "rule": 2}, {"gpar": 3, "fl_rule": 1}]}]}
    base = drive("cfgrun.py", job, "cfg")
    if base is None:
        return

    def val(d):
        d["recs"][0]["obs"][0]["a"] += 1

    binding("ConfigTrace", base, "cfg", [("effective value changed", val, ["C12_Precedence"])])


def batch_trace():
    job = {"out": os.path.join(WD, "bt.json"), "work": os.path.join(WD, "btw"), "first_id": 0,
           "pool": {"a.vhd": os.path.join(REPO, "tests/styles/code_examples/comments.vhd"), "b.vhd": os.path.join(REPO, "tests/styles/code_examples/grp_debouncer.vhd")},
           "scenarios": [{"k": 1, "files": ["a.vhd", "b.vhd"], "p": 2, "fix": False}]}
    base = drive("batchrun.py", job, "bt")
    if base is None:
        return

    def leak(d):
        d["recs"][0]["tasks"][1]["leakAfter"] = "deadbeef"

    def result(d):
        d["recs"][0]["tasks"][0]["result"] = "deadbeef"

    def order(d):
        d["recs"][0]["printed"].reverse()

    binding("BatchTrace", base, "bt", [("leak digest changed", leak, ["C15_LeakConstant"]), ("result differs from solo", result, ["C15_ResultSolo"]), ("output order reversed", order, ["C15_OutputOrder"])])


def main_trace():
    """per-process event logs without a global order: the recorded run is accepted (TLC finds an interleaving); a result
    reported before its task began, a wrong exit status, a swapped print order and a write to a rejected file are not"""
    rej = "entity e is\n  port (a : in std_logic;\nend entity e\n\narchitecture a of e is\nbegin\n  process begin end end end;\n"
    job = {"out": os.path.join(WD, "mt.json"), "work": os.path.join(WD, "mtw"), "first_id": 0,
           "pool": {"a.vhd": "entity  a is\nend entity;\n", "b.vhd": os.path.join(REPO, "tests/styles/code_examples/grp_debouncer.vhd"), "rejected.vhd": rej, "c.vhd": "entity  c is\nend entity;\n"},
           "scenarios": [{"k": 1, "files": ["a.vhd", "rejected.vhd", "b.vhd", "c.vhd"], "p": 3, "fix": True}]}
    if drive("batchrun.py", job, "mt") is None:
        return
    base = json.load(open(job["out"] + ".main"))

    def exitcode(d):
        d["recs"][0]["exit"] = 0

    def order(d):
        d["recs"][0]["out"].reverse()

    def wrote_rejected(d):
        for p in d["recs"][0]["procs"]:
            for e in p:
                if e["t"] == "E" and e["i"] == 2:
                    e["wrote"] = True
        d["recs"][0]["disk"][1] = "fixed"

    def end_before_begin(d):
        for p in d["recs"][0]["procs"]:
            if len(p) >= 2 and p[0]["t"] == "B" and p[1]["t"] == "E":
                p[0], p[1] = p[1], p[0]
                return
        raise ValueError

    def junit(d):
        d["recs"][0]["junit"] = d["recs"][0]["junit"][:-1]

    binding("MainTrace", base, "mt", [("exit status 0 although a file was rejected", exitcode, ["C14_ExitIsOr"]), ("reports printed in reverse order", order, ["C15_OutputOrder", "C15_NoScheduleExplains"]),
                                      ("the rejected file was rewritten", wrote_rejected, ["C16_RejectedUntouched"]), ("a task returned before it was entered", end_before_begin, ["C15_NoScheduleExplains"]),
                                      ("a JUnit entry missing", junit, ["C14_ArtefactsAreCollected"])])


def relayout_trace():
    job = {"out": os.path.join(WD, "rel.json"), "first_id": 0, "items": [{"path": os.path.join(REPO, "tests/styles/code_examples/comments.vhd"), "name": "comments.vhd", "recipes": ["eol1", "upper"]}]}
    base = drive("relrun.py", job, "rel")
    if base is None:
        return

    def role(d):
        d["recs"][0]["roles1"][3] += 1

    def rejected(d):
        d["recs"][1]["accepted"] = False

    binding("RelayoutTrace", base, "rel", [("a role differs", role, ["C05_RolesInvariant"]), ("variant rejected", rejected, ["C05_RelayoutAccepted"])])


def main():
    shutil.rmtree(WD, ignore_errors=True)
    os.makedirs(WD)
    spec_mutants()
    for fn in (fix_trace, lexer_trace, tags_trace, wb_trace, check_trace, config_trace, batch_trace, main_trace, relayout_trace):
        try:
            fn()
        except Exception as e:
            import traceback

            expect(fn.__name__, False, traceback.format_exc()[-400:])
    shutil.rmtree(WD, ignore_errors=True)
    print("selftest: %d failure(s)" % len(FAIL))
    return 1 if FAIL else 0


if __name__ == "__main__":
    sys.exit(main())
