#!/bin/sh
# run_seeded.sh <seeded-id> <check-id>... : apply the seeded change to /repo, run the checks, restore /repo.
# Never leaves /repo modified (restores on exit, also when interrupted).
id=$1; shift
here="$(cd "$(dirname "$0")/.." && pwd)"
patch="$here/seeded/$id/patch.diff"
test -f "$patch" || { echo "no such seeded change: $id"; exit 2; }
if [ -n "$(git -C /repo status --porcelain --untracked-files=no)" ]; then echo "/repo has uncommitted changes; refusing"; exit 2; fi
trap 'git -C /repo checkout -- . ' EXIT INT TERM
git -C /repo apply "$patch" || exit 2
rc=0
for c in "$@"; do
  echo "=== seeded $id : check $c"
  "$here/check" "$c" --tier "${VERIF_TIER:-quick}" > "$here/.work/seeded_${id}_${c}.log" 2>&1
  r=$?
  echo "exit=$r  violations=$(grep -c '^VIOLATION' "$here/.work/seeded_${id}_${c}.log")"
  grep -A1 '^VIOLATION' "$here/.work/seeded_${id}_${c}.log" | head -6
  grep '^MACHINERY' "$here/.work/seeded_${id}_${c}.log" | head -3
done
