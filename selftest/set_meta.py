#!/usr/bin/env python3
"""set_meta.py <id> <breaks> <detected_by text> [needs] [where]: write / update seeded/<id>/meta.json after confirm + run"""
import json, os, sys
id, breaks, det = sys.argv[1:4]
p = '/verif/seeded/%s/meta.json' % id
m = json.load(open(p)) if os.path.exists(p) else {}
m['breaks'] = breaks
if len(sys.argv) > 4 and sys.argv[4]: m['needs'] = sys.argv[4]
if len(sys.argv) > 5 and sys.argv[5]: m['where'] = sys.argv[5]
m.setdefault('needs', 'see notes.md'); m.setdefault('where', 'see notes.md / patch.diff')
m['confirmed'] = "selftest/confirm_seeded.sh in a scratch worktree of /repo: patch applies, demo exits non-zero with the change and 0 on the pristine tree, repository suite unchanged (6 failed / 3487 passed / 2 skipped; the 6 are the pre-existing summary_output_format_* failures)"
m['ran'] = "./selftest/run_seeded_par.sh %s %s (scratch worktree with the patch, VSG_VERIF_REPO; /repo untouched)" % (id, breaks)
m['detected_by'] = det
json.dump(m, open(p, 'w'), indent=1)
