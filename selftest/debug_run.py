# dev-time: trace one input under one configuration tag and show verdicts / the first C08 difference
import json, os, sys, subprocess
sys.path.insert(0, '/verif/harness')
import vsgenv, configs, tlc, findings as F
path, tag = sys.argv[1], (sys.argv[2] if len(sys.argv) > 2 else 'default')
wd = '/verif/.work/dbg'; os.makedirs(wd, exist_ok=True)
args = ['--fix']
if tag.startswith('sweep'):
    t, _ = configs.harvest(); cfg, _ = configs.sweep_config(t, int(tag[5:])); configs.write_config(cfg, wd + '/cfg.json'); args += ['-c', wd + '/cfg.json']
elif tag == 'jcl':
    args += ['--style', 'jcl']
item = {"tid": 1, "name": path, "args": args, "tag": tag}
if '#' in path:
    import variants
    base, rec = path.split('#'); item['text'] = variants.apply(rec, open(base).read())
else:
    item['path'] = path
json.dump({"out": wd + '/out.json', "work": wd + '/w', "probe": True, "reparse": True, "rounds": 1, "items": [item]}, open(wd + '/job.json', 'w'))
subprocess.run(['/venv/bin/python', '/verif/harness/runfix.py', wd + '/job.json'], env=dict(os.environ, VSG_VERIF_TRACE='1'))
res = tlc.validate_shards([wd + '/out.json'])[0][1]
D = json.load(open(wd + '/out.json')); S = F.Strings(wd + '/out.json.strings'); run = D['traces'][0]
print('status', run['status'], run.get('crash'), 'tlc ok', res.ok, res.error[:200])
for tid, l, c in res.verdicts:
    f = F.describe(run, l, c, S); print(c, f['rule'], json.dumps(f['detail'])[:600])
fe = [e for e in run['ev'] if e['e'] == 'FixEnd']; rp = [e for e in run['ev'] if e['e'] == 'Reparse']
if fe and rp and rp[0]['ok']:
    a = [(t[1], S.text(t[4]), S.text(t[5])) for t in fe[0]['toks']]; b = [(t[1], S.text(t[4]), S.text(t[5])) for t in rp[0]['toks']]
    for i, (x, y) in enumerate(zip(a, b)):
        if x != y:
            print('first diff at', i, 'model', a[max(0,i-4):i+4], 'reparse', b[max(0,i-4):i+4]); break
    else:
        print('len', len(a), len(b))
