#!/bin/sh
# queue_seeded.sh "<id>:<check>[,<check>]" ... : run_seeded_par.sh for each, two at a time, output in .work/rs_<id>.out
here="$(cd "$(dirname "$0")/.." && pwd)"
run() { id=${1%%:*}; checks=$(echo ${1#*:} | tr ',' ' '); "$here/selftest/run_seeded_par.sh" $id $checks > "$here/.work/rs_$id.out" 2>&1; }
while [ $# -gt 0 ]; do
  run "$1" & p1=$!; shift
  if [ $# -gt 0 ]; then run "$1" & p2=$!; shift; wait $p2; fi
  wait $p1
done
echo QUEUE-DONE > "$here/.work/queue.done"
