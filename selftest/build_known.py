# dev-time (never run by a check): rebuild known_findings.json from a full (thorough) baseline result + the hand-written entries below.
# Every category was triaged by hand (DESIGN.md section 7); the script only expands them to the rules / inputs they occur on.
import collections, glob, json, os, sys
sys.path.insert(0, '/verif/harness')
res_path = sys.argv[1]
r = json.load(open(res_path))
old = json.load(open('/verif/known_findings.json'))
WHAT = {
 "C01_StepCode": "{rule}: several violations share one region of interest; the repeated length-changing splice of update() duplicates trailing code tokens",
 "C18_StepIsSumOfHunks": "{rule}: duplicate / overlapping violation windows with a length-changing fix; update() overwrites tokens outside what was analysed",
 "C01_Vocabulary": "{rule}: changes code tokens in a way that is not one of the documented structural edits",
 "C01_WrittenCodeEqualsModel": "the text written has other code tokens than the model (code merged into a comment by the rule reported under C02_CommentEndsLine in the same run)",
 "C02_CommentEndsLine": "{rule}: joins / moves code onto the line of a '--' comment; written out, the comment swallows the code that follows",
 "C02_CommentsKept": "{rule}: drops a comment although its documentation does not list comment removal",
 "C02_WrittenCommentsEqualModel": "the comments of the written text differ from the model's (a comment swallowed code or another comment; see C02_CommentEndsLine)",
 "C07_ReportedButUnchanged": "{rule}: reports a violation its fix cannot repair (the fix leaves the reported line unchanged)",
 "C07_ChangedButNotReported": "{rule}: its fix changes a line it did not report",
 "C08_Accepted": "the fixed text is rejected when re-read",
 "C08_SameTokens": "re-reading the fixed text yields another token / role sequence than the in-memory model",
 "C08_SameIndent": "re-reading the fixed text yields other indent levels than the in-memory model",
 "C09_SecondFixChangesNothing": "a second --fix changes the text again",
 "C09_EventuallyConstant": "repeated --fix does not reach a fixed point within 4 runs",
 "C09_NoOscillation": "repeated --fix oscillates between texts",
 "C10_RefixChangesNothing": "{rule}: applying the rule's fix a second time changes the file again",
 "C10_OnlyUnrepairableLeft": "{rule}: after its fix the rule still reports violations it then repairs",
 "C18_ToiIsSlice": "{rule}: a region of interest whose recorded start index is not where its tokens sit",
 "C19_NoCrash": "{rule}: raises an exception on an accepted file",
}
MANUAL = {
 ("C01", "C01_Vocabulary", "function_018"): "function_018 with action=remove deletes the 'function' keyword of a subprogram instantiation ('function f is new g') - it is not the keyword after 'end'",
 ("C01", "C01_Vocabulary", "procedure_012"): "procedure_012 with action=remove deletes the 'procedure' keyword of a subprogram instantiation ('procedure p is new g')",
 ("C01", "C01_Vocabulary", "process_029"): "process_029 rewrites rising_edge(clk) <-> clk'event and clk = '1' (a documented rule, but not one of the edits property C01 permits)",
 ("C01", "C01_Vocabulary", "signal_015"): "signal_015 splits 'signal a, b c : t;' (identifier list with a missing comma, accepted by VSG) into three declarations",
 ("C01", "C01_Vocabulary", "procedure_014"): "procedure_014 appends the procedure name after 'end procedure function;' (VSG accepts the reserved word as a designator)",
 ("C18", "C18_ToiIsSlice", "length_001"): "length_001: the region-of-interest helper never clears bFirstTokenInLine and records the last token of the line as start index",
 ("C19", "C19_NoCrash", "constant_016"): "constant_016 raises TypeError (NoneType + int) on a deferred / multi-line constant declaration",
 ("C10", "C10_RefixChangesNothing", "procedure_401"): "procedure_401 re-aligns again when applied a second time (not idempotent)",
}
byrule = collections.defaultdict(set)
byinput = collections.defaultdict(lambda: collections.defaultdict(set))
for f in r['findings']:
    if f['clause'].startswith(('B_', 'I_')):
        continue
    if f['config'].startswith('nspaces4 ') or f['config'] == 'nspaces4' or 'number_of_spaces=0' in f['config']:
        continue      # number_of_spaces: 0 on every rule at once is no longer explored (see harness/configs.py)
    if f['rule']:
        byrule[(f['property'], f['clause'], f['rule'])].add(f['config'].split(' ')[0].rstrip('0123456789'))
    else:
        # the same defect of an input shows under every configuration family the input is run with: entries are per
        # (clause, input), not per family (a new family - another option sweep, another schedule - is not a new finding)
        byinput[(f['property'], f['clause'])]["any"].add(f['input'].split('#')[0])
known = [e for e in old['known'] if e.get('source') == 'manual']      # entries of the other families are written by hand
for k in sorted(byrule):
    prop, clause, rule = k
    what = MANUAL.get(k) or WHAT.get(clause, clause).format(rule=rule)
    known.append({"property": prop, "clause": clause, "rule": rule, "what": what, "seen_under": sorted(byrule[k])})
for k in sorted(byinput):
    prop, clause = k
    for fam, inputs in sorted(byinput[k].items()):
        e = {"property": prop, "clause": clause, "rule": "", "what": WHAT.get(clause, clause) + " (inputs listed; the same defect of the input shows under every configuration family it was run with)", "input": sorted(inputs)}
        known.append(e)
old['known'] = known
json.dump(old, open('/verif/known_findings.json', 'w'), indent=1)
print(len(known), 'entries;', sum(len(e.get('input', [])) for e in known), 'listed inputs')
