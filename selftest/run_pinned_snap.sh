#!/bin/sh
# run_pinned_snap.sh <name> <check-id>... : the checks on /repo itself, from a snapshot of the framework taken now (edits made
# to /verif meanwhile cannot mix versions), scratch / cache / evidence under /tmp/rp_<name>.scratch (kept for inspection of
# result.json; remove it when done).  VERIF_SEED / VERIF_TIER are honoured.
name=$1; shift
here="$(cd "$(dirname "$0")/.." && pwd)"
sc=/tmp/rp_$name.scratch
rm -rf $sc; mkdir -p $sc/verif "$here/.work"
cp -r "$here/harness" "$here/spec" "$here/check" "$here/known_findings.json" "$here/properties.jsonl" $sc/verif/
rm -rf $sc/verif/harness/__pycache__
for c in "$@"; do
  echo "=== pinned $name : check $c"
  log="$here/.work/pinned_${name}_${c}.log"
  VSG_VERIF_SCRATCH=$sc "$sc/verif/check" "$c" --tier "${VERIF_TIER:-quick}" > "$log" 2>&1
  r=$?
  echo "exit=$r  violations=$(grep -c '^VIOLATION' "$log") known=$(grep -c '^KNOWN-FINDING' "$log")"
  grep -A1 '^VIOLATION' "$log" | grep clause | sed 's/input=.*config=/config=/' | sort | uniq -c | sort -rn | head -12
  grep '^MACHINERY' "$log" | cut -c1-400 | head -3
done
