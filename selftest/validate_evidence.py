#!/usr/bin/env python3-vt
"""dev-time: every evidence/<id>.json validates against the schema; MANIFEST.json validates; every claimed check has its file"""
import json, sys
import jsonschema
es = json.load(open('/root/.vp/EVIDENCE.schema.json'))
ms = json.load(open('/root/.vp/MANIFEST.schema.json'))
m = json.load(open('/verif/MANIFEST.json'))
jsonschema.validate(m, ms)
bad = 0
for c in m['checks']:
    p = c['evidence_file']
    try:
        e = json.load(open(p))
        jsonschema.validate(e, es)
        print('%s ok  level=%s violations=%s wall=%s' % (c['property_id'], e.get('level'), e.get('violations'), e.get('wall_s')))
    except Exception as ex:
        bad += 1
        print('%s BAD %s' % (c['property_id'], str(ex)[:300]))
sys.exit(1 if bad else 0)
