# dev-time (never run by a check): the default-configuration items of the THOROUGH fix-family tier (every fixture, every generated
# design; 2 successive fixes, fresh check, re-read) traced and validated; prints the findings known_findings.json does not list,
# grouped by clause, and with --write adds the input-keyed ones (categories triaged by hand, DESIGN.md 0.3) to the listed inputs.
import collections, json, os, sys
sys.path.insert(0, '/verif/harness')
os.environ.setdefault("VSG_VERIF_TRACE", "1")
import common, fixfam, orchestrate, tlc, findings as F
wd = orchestrate.workdir("baseline_default")
items, sweeps = fixfam.build_items("thorough", common.seed(), wd)
tags = set(sys.argv[2].split(",")) if len(sys.argv) > 2 else {"default"}
items = [it for it in items if it["tag"] in tags]
print(len(items), "items", flush=True)
outs = orchestrate.run_shards(items, wd, shards=32, probe=True, reparse=True, rounds=2)
results = tlc.validate_shards(outs, module="FixTrace", parallel=16)
new = collections.defaultdict(lambda: collections.defaultdict(set))
allf = []
for path, res in results:
    D = json.load(open(path))
    S = F.Strings(path + ".strings")
    runs = dict((r["tid"], r) for r in D["traces"])
    if not res.ok:
        print("TLC error", path, res.error[:300])
    for tid, l, clause in res.verdicts:
        if clause.startswith("I_"):
            continue
        f = F.describe(runs[tid], l, clause, S)
        allf.append(f)
        kh, n = F.split_known([f], f["property"])
        if n:
            new[(f["property"], clause)][f.get("rule", "")].add(f["input"].split("#")[0])
json.dump(allf, open('/verif/.work/baseline_default_findings.json', 'w'))
INPUT_KEYED = {"C08_ReportIsFreshReport", "C08_SameIndent", "C08_SameTokens", "C08_Accepted", "C09_SecondFixChangesNothing", "C09_EventuallyConstant", "C09_NoOscillation",
               "C01_WrittenCodeEqualsModel", "C02_WrittenCommentsEqualModel"}
for k in sorted(new):
    for rule, ins in sorted(new[k].items()):
        print(k, rule or "-", len(ins), sorted(ins)[:4])
if "--write" in sys.argv:
    k = json.load(open('/verif/known_findings.json'))
    for (prop, clause), byrule in new.items():
        if clause not in INPUT_KEYED:
            continue
        ins = set()
        for rule, s in byrule.items():
            if rule == "":
                ins |= s
        if not ins:
            continue
        for e in k["known"]:
            if e["property"] == prop and e["clause"] == clause and e.get("rule", "") == "" and isinstance(e.get("input"), list) and "config" not in e and "config_contains" not in e:
                e["input"] = sorted(set(e["input"]) | ins)
                break
        else:
            what = {"C08_ReportIsFreshReport": "the report at the end of the --fix run differs from a fresh check of the written file (a consequence of the model / text divergence: trailing blanks left behind by a later rule, stale indent levels, code tags on inserted tokens)"}.get(clause, clause)
            k["known"].append({"property": prop, "clause": clause, "rule": "", "what": what + " (inputs listed; the same defect of the input shows under every configuration family it was run with)", "input": sorted(ins)})
    json.dump(k, open('/verif/known_findings.json', 'w'), indent=1)
    print("known_findings.json updated")
