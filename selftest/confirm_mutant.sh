#!/bin/sh
# confirm_mutant.sh <worktree>  : demo fails on the changed tree, passes on pristine /repo, test suite unchanged
wt=$1
demo=$(ls $wt/out/demo.* | head -1)
run() { case "$demo" in *.py) /venv/bin/python "$demo" "$1";; *) sh "$demo" "$1";; esac; }
run $wt > $wt/out/demo_mut.log 2>&1; echo "demo on mutant rc=$?"
run /repo > $wt/out/demo_pristine.log 2>&1; echo "demo on pristine rc=$?"
cd $wt && PYTHONPATH=$wt /venv/bin/python -m pytest -q -p no:cacheprovider --timeout=900 --no-cov tests > $wt/out/suite.log 2>&1
tail -1 $wt/out/suite.log
