#!/bin/sh
# run_seeded_par.sh <seeded-id> <check-id>... : run checks against a scratch worktree of /repo that carries the seeded change
# (VSG_VERIF_REPO), with their own scratch / cache / evidence directory (VSG_VERIF_SCRATCH).  /repo and /verif's evidence are
# not touched, so several seeded changes can be examined at the same time.  Worktree and scratch directory are removed.
id=$1; shift
here="$(cd "$(dirname "$0")/.." && pwd)"
patch="$here/seeded/$id/patch.diff"
test -f "$patch" || { echo "no such seeded change: $id"; exit 2; }
wt=/tmp/rs_$id; sc=/tmp/rs_$id.scratch
git -C /repo worktree remove --force $wt 2>/dev/null; rm -rf $sc
git -C /repo worktree add -q --detach $wt HEAD || exit 2
trap 'git -C /repo worktree remove --force $wt; rm -rf $sc' EXIT INT TERM
git -C $wt apply "$patch" || exit 2
mkdir -p $sc "$here/.work"
# the checks run from a snapshot of the framework taken now, so that edits made to /verif while they run cannot mix versions
snap=$sc/verif
mkdir -p $snap
cp -r "$here/harness" "$here/spec" "$here/check" "$here/known_findings.json" "$here/properties.jsonl" $snap/
rm -rf $snap/harness/__pycache__
for c in "$@"; do
  echo "=== seeded $id : check $c"
  log="$here/.work/seeded_${id}_${c}.log"
  VSG_VERIF_REPO=$wt VSG_VERIF_SCRATCH=$sc "$snap/check" "$c" --tier "${VERIF_TIER:-quick}" > "$log" 2>&1
  r=$?
  echo "exit=$r  violations=$(grep -c '^VIOLATION' "$log")"
  grep -A1 '^VIOLATION' "$log" | grep clause | sed 's/input=.*config=/config=/' | sort | uniq -c | sort -rn | head -8
  grep '^MACHINERY' "$log" | head -3
done
