#!/bin/sh
# import_seeded.sh <worktree> <new-id>: copy a sub-agent's out/ (patch.diff, demo.py, notes.md) into seeded/<new-id>/ and remove the worktree
wt=$1; id=$2
mkdir -p /verif/seeded/$id
cp $wt/out/patch.diff $wt/out/demo.py $wt/out/notes.md /verif/seeded/$id/ || exit 2
git -C /repo worktree remove --force $wt
echo imported $id
