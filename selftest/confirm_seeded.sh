#!/bin/sh
# confirm_seeded.sh <id>: in a scratch worktree (removed afterwards): the seeded change applies, its demonstration fails with it
# and passes on the pristine tree, and the repository's test-suite is unchanged.
id=$1
wt=/tmp/cs_$id
git -C /repo worktree remove --force $wt 2>/dev/null
git -C /repo worktree add -q --detach $wt HEAD || exit 2
git -C $wt apply /verif/seeded/$id/patch.diff || { echo "patch does not apply"; exit 2; }
demo=$(ls /verif/seeded/$id/demo.* | head -1)
run() { case "$demo" in *.py) /venv/bin/python "$demo" "$1";; *) sh "$demo" "$1";; esac; }
run $wt > /tmp/cs_$id.mut.log 2>&1; echo "$id demo on changed tree rc=$? (expected non-zero)"
run /repo > /tmp/cs_$id.pri.log 2>&1; echo "$id demo on pristine tree rc=$? (expected 0)"
(cd $wt && PYTHONPATH=$wt /venv/bin/python -m pytest -q -p no:cacheprovider --timeout=900 --no-cov -n 6 tests 2>&1 | tail -1)
git -C /repo worktree remove --force $wt
rm -f /tmp/cs_$id.mut.log /tmp/cs_$id.pri.log
