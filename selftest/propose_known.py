# dev-time helper (never run by a check): summarise findings of the latest cached collection that known_findings.json does not list
import collections, glob, json, os, sys
sys.path.insert(0, '/verif/harness')
import findings as F
fam = sys.argv[1] if len(sys.argv) > 1 else 'fixfam_quick'
p = sorted(glob.glob('/verif/.cache/*/%s_*/result.json' % fam), key=os.path.getmtime)[-1]
r = json.load(open(p))
c = collections.defaultdict(lambda: collections.defaultdict(set))
for f in r['findings']:
    kh, new = F.split_known([f], f['property'])
    if new:
        c[(f['property'], f['clause'], f['rule'])][f['config']].add(f['input'])
out = []
for k in sorted(c):
    out.append({"property": k[0], "clause": k[1], "rule": k[2], "by_config": {cfg: sorted(v) for cfg, v in c[k].items()}})
json.dump(out, open('/verif/.work/proposed_known.json', 'w'), indent=1)
for o in out:
    print(o['property'], o['clause'], o['rule'], {k: len(v) for k, v in o['by_config'].items()})
