# dev-time: (re)generate MANIFEST.json from the table below
import json
P = [json.loads(l) for l in open('/verif/properties.jsonl')]
ids = [p['id'] for p in P]
FIX_NOTE = ("Trusted: TLC/SANY and the CommunityModules, the abstraction function (harness/abstraction.py) and the add-only wrappers (harness/hooks.py), docs/*_rules.rst as the statement of "
            "what a rule is documented to do. Rule bodies and the classifier are not transcribed: they are covered on the explored executions only (whole fixture corpus, option sweeps "
            "harvested from the rules' own tests, jcl style, comment/case re-layouts).")
CHECKS = {
 "C01": ("model_checking", "trace validation against FixTrace.tla + TLC on FixPipeline.tla", "6 C01",
   "Design: TLC enumerates every class-respecting edit of every token list up to 4 tokens (FixPipeline.tla, 4 mechanism mutants) and shows code preservation follows from per-window vocabulary + splice mechanics. "
   "Binding: every rule application of every traced --fix run is one TLC state of FixTrace.tla in which the code-token clauses (C01_StepCode, C01_Vocabulary, C01_LiteralsExact, C01_CodeOnlyByStructural, C01_WrittenCodeEqualsModel) are evaluated on the recorded windows.", FIX_NOTE),
 "C02": ("model_checking", "trace validation against FixTrace.tla + TLC on FixPipeline.tla", "6 C02",
   "Same traces as C01, comment projection: C02_StepComments, C02_CommentsKept (drops only by rules documented to drop), C02_CommentEndsLine (a comment never swallows code), C02_WrittenCommentsEqualModel; comment-at-every-line-end / between-all-lines variants of the fixtures.", FIX_NOTE),
 "C03": ("model_checking", "trace validation against FixTrace.tla (EffectWithin per documented class)", "6 C03",
   "Every fix window of every rule application is checked against the effect class its documentation declares (WsOnly / VertOnly / CaseOnly / structural vocabulary / never fixes); phase-1 normalisation has its own clause.", FIX_NOTE),
 "C04": ("model_checking", "TLC on LexerImpl.tla (transcription of tokens.py) refining Lexer.tla + exhaustive replay into tokens.create + trace clauses", "3.2 C04",
   "Lexer: exhaustive over all strings <= 4 (quick) / 5 (thorough) over 23 character classes in TLC, and the real tokens.create replayed on the same exhaustive space with every pass compared with the transcription; random and corpus lines against the contract. "
   "Parse/emit round trip, every token classified, clean file never rewritten: clauses C04_* on every fix-run trace, on strace-recorded CLI runs (a clean file sees no mutating system call; also with unreported trailing blanks), and C04_NoFixNoWrite on multi-file runs validated against Main.tla.",
   "LexerOps.tla is a transcription of vsg/tokens.py; its fidelity is itself checked (zero drift on the exhaustive space). Alphabet of 23 classes. Round-trip clauses hold on the explored files only."),
 "C07": ("model_checking", "trace validation against FixTrace.tla (line arithmetic on the recorded token lists)", "6 C07",
   "For every application of a whitespace/indent/alignment/case rule TLC splits the model list into lines before and after and compares the changed line numbers with the reported ones (C07_ChangedButNotReported, C07_ReportedButUnchanged, C07_LineCount, C07_InFile).", FIX_NOTE),
 "C08": ("model_checking", "trace validation against FixTrace.tla (model vs fresh parse of the emitted text)", "6 C08",
   "After every traced fix run the text the model would be written as is parsed afresh by the real parser; TLC compares kinds, values, roles and indent levels with the model (C08_Accepted, C08_SameTokens, C08_SameIndent).", FIX_NOTE),
 "C09": ("model_checking", "trace validation against FixTrace.tla (text after each of n successive --fix runs)", "6 C09",
   "Design: Converge.tla - idempotent rules (C10) + phase discipline + canonical write-back (C08) imply that a second run changes nothing, for every disturbance relation (TLC up to 5 rules, 3 mutants, one per mechanism; TLAPS proof ConvergeProof.tla for any number of rules); FixSchedule.tla for the clean-up / indent points. "
   "Binding: every default-configuration and smart_tabs input is fixed 2 (quick) / 4 (thorough) times in a row exactly as the CLI would; TLC checks second-fix-changes-nothing, no oscillation, eventually constant, and the schedule clauses on every trace.", FIX_NOTE),
 "C10": ("model_checking", "trace validation against FixTrace.tla (Refix probe after every changing fix)", "6 C10",
   "After every rule application that changed the list, the same rule is analysed, fixed and analysed again on a deep copy; the spec's Refix step must stutter (C10_RefixChangesNothing, C10_OnlyUnrepairableLeft).", FIX_NOTE),
 "C11": ("model_checking", "TLC on CodeTags.tla (documentation machine vs transcription of code_tags.py) + exhaustive stamp replay + planted-tag reports + C11_NoFixWhereTagged on fix traces", "3.5 C11",
   "Design: reference and implementation tag machines in lock step over all line-kind sequences (with the pre-fix has_code_tag as a mutant that must fail). Binding: every sequence of <= 4/5 lines through the real parser; tags planted in corpus files vs neutral twins through the real rule set; no fix window may contain a token tagged for its rule.",
   "docs/code_tags.rst is the reference; tag-carrying lines are unconstrained; report mode samples files and placements."),
 "C16": ("fault_enumeration", "TLC on WriteBack.tla (+2 mutants) + strace fault/kill schedules on the unmodified CLI validated against WriteBackTrace.tla", "3.8 C16",
   "Every system call on target/.tmp/.bak of a --fix [--backup] run is failed or killed in turn (strace inject), across modes, umasks, a stale .tmp and a target with a second hard link; TLC checks the recorded call sequence is one the protocol allows and that the disk is atomic, mode-preserving, backup-faithful, tmp-free at every step; "
   "C16_RejectedUntouched on multi-file, multi-job runs validated against Main.tla.",
   "strace; injected failure = call not executed; single process; Linux semantics as modelled in WriteBackOps.tla Effect."),
 "C18": ("model_checking", "trace validation against FixTrace.tla + TLC on FixPipeline.tla (splice/remap mechanisms, mutants)", "6 C18",
   "At every analysis the role index is compared with an independent recomputation, every region of interest with the identical slice of the list; every fix is checked to be exactly the sum of its windows' real changes (C18_StepIsSumOfHunks, C18_WindowsExact, C18_ToiIsSlice, C18_NoCollateral, C18_IndexAgrees, C18_RemapDiscipline).", FIX_NOTE),
 "C19": ("exploration", "trace validation (no Crash action in the specification) over corpus x configurations", "6 C19",
   "Every traced run must end in Finish or in a located rejection; any exception out of analyze/fix/report is a deviation (C19_NoCrash).", FIX_NOTE),
}
CHK_NOTE = ("Trusted: TLC/SANY, the ground-truth hook (violations standing on the rule objects after check_rules), the artefact parsers of harness/chkrun.py. "
            "Inputs are a seeded stratified sample of the fixture corpus; rule analyses themselves are covered on the explored files only.")
CHECKS.update({
 "C06": ("exploration", "trace validation against CheckTrace.tla (repeat / permuted order / disabled subsets / attribute digests)", "6 C06",
   "Relational check with the specification as the oracle: per file an all-phases check, the same check repeated on the same objects, with the rule list permuted, and with seeded subsets of rules disabled; "
   "TLC checks equality of the violation sets (modulo the documented later-sub-phase dependence) and that no analysis changed any token attribute, the token index, or the configuration another rule holds; the same under a configuration whose option lists are shared by all rules.", CHK_NOTE),
 "C13": ("model_checking", "TLC on CheckReport.tla (+mutant) and CheckTrace.tla executing the spec's Check on recorded per-rule violations", "6 C13",
   "Design: gated report = prefix of the all-phases report for every small rule table / violation assignment / skip set (884k cases; stop-inside-subphase mutant fails). "
   "Binding: per (file, configuration incl. phase and severity re-assignments) TLC executes Check on the violations of an --all_phases run and compares with what each (ap, skip) run reported, its last phase, rules-ran count and status; "
   "--fix_phase N is compared with disabling phases > N; C13_FixPhase / C13_PhaseOrder on every fix trace.", CHK_NOTE),
 "C14": ("model_checking", "trace validation against CheckTrace.tla (formats as projections of one violation set)", "6 C14",
   "main() is run per (files incl. rejected / mis-configured, output format, severity configuration incl. user-defined severities) with --json --junit --quality_report; every artefact is parsed back and TLC compares it with the projection of the ground-truth set, the printed counts and the exit status.", CHK_NOTE),
 "C20": ("model_checking", "trace validation against CheckTrace.tla and FixTrace.tla (C20_OnlyListed)", "6 C20",
   "Per file: --fix_only with nothing / every rule: all / one rule / one rule with a subset of its lines / two rules; TLC checks all==plain fix, none==untouched, only listed rules and lines fix, listed lines of a line-local rule are exactly the lines that change; "
   "one selection given for several files of one invocation (C20_AllIsPlainFix on the Main.tla records).", CHK_NOTE),
})
CHECKS.update({
 "C05": ("exploration", "trace validation against RelayoutTrace.tla (roles of a file vs roles of its re-layouts) + TLC on Relayout.tla", "6 C05",
   "Relational check with the specification as the oracle: every base fixture x re-layout recipe (comments at line ends / own lines, widen / narrow / remove / lopsided blanks, line breaks at every k-th blank, joins, upper / lower / flipped case) is classified by the real parser; "
   "TLC requires the variant to be accepted, the code tokens and the role sequence over them to be equal. Lexical level: C05_DelimitersSeparate is an invariant of the transcribed tokenizer (TLC, 23-class alphabet, pre-repair mutant) and a clause on every recorded run of the real tokens.create. "
   "Design model: roles are a function of the code only (layout-sensitive mutant fails).",
   "Trusted: harness/variants.py (self-checked by the harness's own lexer), TLC. The classifier is covered on the explored (file, recipe) pairs only; files with pragma / preprocessor regions are left out."),
 "C12": ("model_checking", "TLC on Config.tla (reference precedence vs transcription of the loader; known-finding and mutant configs) + real configuration stacks validated against ConfigTrace.tla", "6 C12",
   "Design: 524k stacks of two sources x sections x {absent,a,b,a+b}. Binding: stacks instantiated as JSON files for all ~960 rules at once, loaded by config.New + configure_rules, the value every rule ends up with and acts on compared with the reference; "
   "unknown / deprecated rule names must be diagnosed; layered vs flat configurations behave alike.",
   "Trusted: TLC; user_error_message / indent_size stand for every configurable attribute; per-file sections come from one source per stack."),
 "C15": ("model_checking", "TLC on Batch.tla / Main.tla (+mutants) + traced command-line runs over file lists / orders / job counts validated against BatchTrace.tla and MainTrace.tla (interleaving search)", "0.1c, 6 C15",
   "Every apply_rules call of real multi-file, multi-process runs is recorded with digests of all module-level state before/after and of its result; TLC checks leak constancy, equality with the solo p=1 result, output order, exit = OR, --stdin vs by-name. "
   "Main.tla models the command line as a whole (parent, workers, stop flag, exit, artefacts, disk; every schedule of <= 3/4 files x 1-3 jobs; termination under fairness; 2 mutants; the stop-race known finding as a config); "
   "MainTrace.tla validates the same runs from per-process event logs that have no global order - TLC finds the interleaving or reports that none exists.",
   "Trusted: the generic leak digest (all non-function globals and class attributes of vsg.* plus the shared config/argument objects), fork start method."),
 "C17": ("model_checking", "trace validation against ConfigTrace.tla (-oc / -rc round trips and behaviour equivalence)", "6 C17",
   "For styles x configuration stacks: -oc a; -c a -oc b; TLC compares the flattened contents entry by entry, -rc samples against the -oc entry, what every rule holds in memory under (style, stack) vs under -c a (every configurable attribute by value, lists in order), and check/fix runs under both on sample inputs.",
   "Trusted: TLC; scenarios are a designed list (styles x sweeps x layered x user severities), inputs a small sample."),
})
checks = []
for pid in ids:
    if pid not in CHECKS:
        continue
    cat, tech, ref, text, note = CHECKS[pid]
    checks.append({"property_id": pid, "quick_cmd": "./check %s --tier quick" % pid, "thorough_cmd": "./check %s --tier thorough" % pid,
                   "evidence_file": "/verif/evidence/%s.json" % pid, "replay_cmd_template": "./check %s --replay {path}" % pid, "engine": "tlc",
                   "level_claimed": {"category": cat, "text": text, "design_ref": "DESIGN.md section " + ref}, "level_note": note, "technique": tech})
na = [{"property_id": p, "reason": "check not built yet (work in progress; DESIGN.md section 6 describes the plan)"} for p in ids if p not in CHECKS]
m = {"version": 1, "setup_cmd": "./setup.sh",
     "hooks": {"guard": "VSG_VERIF_TRACE", "enable": "checks run VSG from /repo's working tree through /verif/harness; the add-only wrappers of harness/hooks.py are installed from outside (monkeypatching) only when VSG_VERIF_TRACE=1; no hook code lives in /repo",
               "baseline_off_cmd": "cd /repo && /venv/bin/python -m pytest -q -p no:cacheprovider --timeout=900 --continue-on-collection-errors", "source_commits": [], "add_only": True},
     "engines": [{"name": "tlc", "path": "/opt/veriftools/tla/tla2tools.jar", "serves_properties": sorted(CHECKS), "kind_free_text": "TLC 1.8 model checker: design-level configs spec/MC_*.cfg, mutants spec/Mutant_*.cfg, trace validation spec/*Trace.tla"},
                 {"name": "tlapm", "path": "/usr/local/bin/tlapm", "serves_properties": ["C09", "C15"], "kind_free_text": "TLA+ proof system: spec/ConvergeProof.tla proves the convergence argument of Converge.tla for any number of rules (47 obligations), spec/MainProof.tla proves C15_OutputOrder of Main.tla for any number of files and jobs (40 obligations); extras next to the TLC runs"}],
     "checks": checks,
     "notes": "One entry point ./check <ID>. Properties of one family share one cached collection per tree hash (.cache/). Known genuine defects: known_findings.json. Seeded breaking changes: seeded/.",
     "not_applicable": na}
json.dump(m, open('/verif/MANIFEST.json', 'w'), indent=1)
print(len(checks), len(na))
