#!/bin/sh
# final_run.sh: every registered quick command once, in /verif against /repo (this is what writes the committed evidence)
cd /verif
for c in C01 C02 C03 C04 C05 C06 C07 C08 C09 C10 C11 C12 C13 C14 C15 C16 C17 C18 C19 C20; do
  t0=$(date +%s)
  ./check $c --tier quick > .work/final_$c.log 2>&1
  r=$?
  echo "$c exit=$r violations=$(grep -c '^VIOLATION' .work/final_$c.log) known=$(grep -c '^KNOWN-FINDING' .work/final_$c.log) machinery=$(grep -c '^MACHINERY' .work/final_$c.log) wall=$(( $(date +%s) - t0 ))s"
done
python3-vt selftest/validate_evidence.py | grep -v " ok " 
echo FINAL-DONE
