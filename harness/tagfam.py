# -*- coding: utf-8 -*-
"""C11 - code tags: design-level TLC (CodeTags.tla: documentation vs implementation machine), exhaustive stamp
conformance through the real parser, and report-level conformance on corpus files with planted tags."""
import json
import os
import shutil
import subprocess
import time

import common
import corpus
import findings as F
import orchestrate
import tlc


def _run_jobs(jobs, wd, driver):
    env = dict(os.environ)
    env.update({"VSG_VERIF_TRACE": "1", "PYTHONHASHSEED": "0", "PYTHONWARNINGS": "ignore"})
    procs = []
    for k, job in enumerate(jobs):
        jp = os.path.join(wd, "job%02d.json" % k)
        with open(jp, "w") as f:
            json.dump(job, f)
        log = open(os.path.join(wd, "log%02d.txt" % k), "w")
        procs.append((subprocess.Popen([orchestrate.PY, os.path.join(orchestrate.HARNESS, driver), jp], env=env, stdout=log, stderr=subprocess.STDOUT, cwd=wd), log, job["out"]))
    outs = []
    for p, log, out in procs:
        rc = p.wait()
        log.close()
        if rc != 0 or not os.path.exists(out):
            raise RuntimeError("driver failed rc=%s: see %s" % (rc, log.name))
        outs.append(out)
    return outs


FAMILY_FILES = ['harness/tagfam.py', 'harness/tagrun.py', 'harness/runfix.py', 'harness/variants.py', 'harness/vlex.py', 'spec/CodeTags.tla', 'spec/CodeTagsOps.tla', 'spec/CodeTagsTrace.tla', 'spec/CodeTagsTrace.cfg', 'spec/MC_CodeTags.cfg', 'spec/Mutant_CodeTags_EqAll.cfg']


def collect(tier):
    th = common.tree_hash(FAMILY_FILES)
    key = "%s/tagfam_%s_%d" % (th, tier, common.seed())
    with common.Lock("tagfam_" + tier):
        cd = common.cache_dir(key)
        rp = os.path.join(cd, "result.json")
        if os.path.exists(rp):
            r = json.load(open(rp))
            r["cached"] = True
            return r
        r = _collect(tier)
        json.dump(r, open(rp, "w"))
        r["cached"] = False
        return r


def _collect(tier):
    t0 = time.time()
    seed = common.seed()
    wd = orchestrate.workdir("tagfam_" + tier)
    design = []
    for cfg, must_fail in (("MC_CodeTags.cfg", False), ("Mutant_CodeTags_EqAll.cfg", True)):
        res = tlc.model_check("CodeTags", cfg, workers=4, timeout=600)
        violated = "Invariant C11_SuppressedAgrees is violated" in res.out
        design.append({"module": "CodeTags", "cfg": cfg, "ok": (violated if must_fail else res.ok), "states": res.states, "distinct": res.distinct,
                       "expect": "counterexample" if must_fail else "no error", "error": res.error[:300]})
    maxlen = 4 if tier == "quick" else 5
    nsh = 16
    jobs = [{"out": os.path.join(wd, "stamps%02d.json" % k), "work": os.path.join(wd, "w%02d" % k), "mode": "stamps", "maxlen": maxlen, "shard": k, "nshards": nsh,
             "first_id": k * 10000000} for k in range(nsh)]
    paths = [p for p in corpus.all_vhd() if "/rule_doc/" not in p]
    nfiles = 64 if tier == "quick" else 600
    sample = corpus.stratified_sample(paths, nfiles, seed, always=("tests/styles/code_examples/",))
    for k in range(nsh):
        items = [{"path": p, "name": corpus.rel(p)} for p in sample[k::nsh]]
        jobs.append({"out": os.path.join(wd, "report%02d.json" % k), "work": os.path.join(wd, "r%02d" % k), "mode": "report", "items": items, "seed": seed + k,
                     "per_file": 5 if tier == "quick" else 13, "first_id": 500000000 + k * 1000000})
    outs = _run_jobs(jobs, wd, "tagrun.py")
    t1 = time.time()
    results = tlc.validate_shards(outs, module="CodeTagsTrace", parallel=16)
    findings = []
    stats = {"stamp_sequences": 0, "report_records": 0, "report_files": set(), "nontrivial_reports": 0, "tlc_states": 0, "tlc_errors": [], "placements": {}, "drift": 0}
    samples = []
    for path, res in results:
        D = json.load(open(path))
        recs = dict((r["id"], r) for r in D["recs"])
        stats["tlc_states"] += res.states
        if not res.ok or res.states != len(recs):
            stats["tlc_errors"].append({"shard": os.path.basename(path), "error": res.error[:400], "states": res.states, "recs": len(recs)})
        for r in D["recs"]:
            if r["t"] == "stamps":
                stats["stamp_sequences"] += 1
                if len(samples) < 2 and len(r["lines"]) >= 3:
                    samples.append({"kind": "stamps", "lines": r["lines"], "suppressed_observed": r["obs"]})
            else:
                stats["report_records"] += 1
                stats["report_files"].add(r["file"])
                stats["placements"][r["placement"]] = stats["placements"].get(r["placement"], 0) + 1
                if len(r["vt"]) != len(r["vn"]):
                    stats["nontrivial_reports"] += 1
                if len([s for s in samples if s["kind"] == "report"]) < 2 and len(r["vt"]) != len(r["vn"]):
                    samples.append({"kind": "report", "file": r["file"], "placement": r["placement"], "where": r["where"], "rules_named": [r["ra"], r["rb"]],
                                    "violations_neutral": len(r["vn"]), "violations_tagged": len(r["vt"])})
        for rid, k, clause in res.verdicts:
            r = recs[rid]
            if clause.startswith("DRIFT"):
                stats["drift"] += 1
                continue
            if r["t"] == "stamps":
                f = {"property": "C11", "clause": clause, "rule": "", "input": "generated:" + " ".join("%s%s" % (l["k"], "".join(l["ids"])) for l in r["lines"]),
                     "config": "stamps", "detail": {"line": k, "lines": r["lines"], "observed": r["obs"]}}
            else:
                f = {"property": "C11", "clause": clause, "rule": r["ra"] + "," + r["rb"], "input": r["file"] + "#" + r["placement"], "config": "report",
                     "detail": {"placement": r["where"], "named": [r["ra"], r["rb"]], "vt": len(r["vt"]), "vn": len(r["vn"]), "fixSame": r["fixSame"]}}
            findings.append(f)
    stats["report_files"] = len(stats["report_files"])
    stats["wall"] = {"drivers": round(t1 - t0, 1), "tlc": round(time.time() - t1, 1)}
    shutil.rmtree(wd, ignore_errors=True)
    return {"findings": findings, "stats": stats, "design": design, "samples": samples, "maxlen": maxlen}


def check(prop, tier):
    t0 = time.time()
    r = collect(tier)
    st = r["stats"]
    bad_design = [d for d in r["design"] if not d["ok"]]
    if st["tlc_errors"] or bad_design:
        common.machinery("tlc_errors=%s design=%s" % (st["tlc_errors"][:2], bad_design))
    # the fix-side clause (a rule never edits a token that carries its tag) is evaluated on every fix-run trace
    import fixfam

    fr = fixfam.collect(tier)
    fst = fr["stats"]
    if fst["tlc_errors"] or fst["unfinished"] or [f for f in fr["findings"] if f["clause"].startswith("B_")]:
        common.machinery("fix-run traces: %s %s" % (fst["tlc_errors"][:2], fst["unfinished"][:3]))
    mine = [f for f in r["findings"] + fr["findings"] if f["property"] == prop]
    known_hits, new = F.split_known(mine, prop)
    rc = common.report(prop, known_hits, new, lambda f: F.write_replay(prop, f))
    cov = {
        "states": sum(d["states"] for d in r["design"]) + st["tlc_states"],
        "transitions": sum(d["states"] for d in r["design"]) + st["tlc_states"],
        "traces_validated_against_impl": st["stamp_sequences"] + st["report_records"],
        "samples": r["samples"] or [{"note": "no sample"}],
        "evaluations": st["stamp_sequences"] + st["report_records"],
        "distinct_nontrivial": st["stamp_sequences"] + st["nontrivial_reports"],
        "rule": "stamps: every sequence of <= %d tag/ordinary lines over 12 line kinds, parsed by the real vhdlFile, has_code_tag observed per line; "
                "report: corpus files with seeded tag placements vs neutral twins through the real rule set (non-trivial: the tags changed the report)" % r["maxlen"],
        "design_models": r["design"],
        "exhaustive": True,
        "stamp_sequences": st["stamp_sequences"],
        "report_records": st["report_records"],
        "report_files": st["report_files"],
        "placements": st["placements"],
        "model_drift_lines": st["drift"],
        "from_cache": r.get("cached", False),
        "collection_wall_s": st["wall"],
        "fix_run_traces_checked_for_C11_NoFixWhereTagged": fst["traces"],
    }
    common.write_evidence(prop, tier, "model_checking", cov, time.time() - t0, len(new),
                          ["docs/code_tags.rst is the reference semantics (CodeTagsOps.tla RefStep)", "tag comments on their own line; the tag-carrying lines themselves are unconstrained",
                           "TLC/SANY, Json module", "report mode: rules named by the tags are the two rules with most violations on the file; files that already contain vsg_ tags are skipped"])
    return rc
