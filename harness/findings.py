# -*- coding: utf-8 -*-
"""From TLC verdict lines to findings; known-findings handling; replay files."""
import hashlib
import json
import os

HARNESS = os.path.dirname(os.path.abspath(__file__))
VERIF = os.path.dirname(HARNESS)
KNOWN = os.path.join(VERIF, "known_findings.json")

KIND = {1: "", 2: "WS", 3: "CR", 4: "BLANK", 5: "CMT", 6: "DCMT", 7: "PRAGMA", 8: "PREPROC", 9: "IGN"}


def clause_property(clause):
    return clause.split("_")[0]


class Strings:
    def __init__(self, path):
        with open(path) as f:
            self.d = json.load(f)

    def text(self, i):
        return self.d.get(str(i), "??%s" % i)[2:]

    def toks(self, l, limit=60):
        out = []
        for t in l[:limit]:
            k = t[1]
            v = self.text(t[4])
            if k == 3:
                out.append("\\n")
            elif k == 2:
                out.append("_" * max(1, t[6]) if v.strip(" ") == "" else repr(v))
            elif k == 4:
                out.append("<blank>")
            else:
                out.append(v)
        return " ".join(out) + (" ..." if len(l) > limit else "")


def rule_of(ev, S):
    return S.text(ev["rule"]) if "rule" in ev else ""


def describe(run, l, clause, S):
    """finding = identity (property, clause, rule, input, config) + readable detail"""
    ev = run["ev"][l - 1] if 0 < l <= len(run["ev"]) else {}
    rule = rule_of(ev, S)
    if ev.get("e") in ("Reparse", "FixEnd", "Norm", "Parse"):
        rule = ""
    if ev.get("e") in ("RunCrash", "FixAbort", "CheckAbort", "RunHang"):
        # attribute the abort of the run to the rule whose analyze/fix raised
        for prev in reversed(run["ev"][: max(0, l - 1)]):
            if prev.get("e") == "Crash":
                rule = rule_of(prev, S)
                break
    f = {
        "property": clause_property(clause),
        "clause": clause,
        "rule": rule,
        "input": run.get("file", ""),
        "config": run.get("tag") or " ".join(a for a in run.get("args", []) if not a.startswith("/")),
        "event": ev.get("e", ""),
        "l": l,
        "tid": run.get("tid"),
    }
    detail = {}
    if ev.get("e") == "Fix":
        detail["class"] = ev.get("cls")
        detail["phase"] = ev.get("phase")
        detail["reported_lines"] = ev.get("rep", [])[:20]
        wins = []
        for w in ev.get("win", [])[:4]:
            wins.append({"start": w["s"], "len": w["n"], "line": w.get("line"), "pre": S.toks(w["pre"], 40), "post": S.toks(w["post"], 40)})
        detail["windows"] = wins
        detail["nwindows"] = len(ev.get("win", []))
    elif ev.get("e") == "Probe":
        detail = {k: ev.get(k) for k in ("v1", "v2", "changed", "same", "crash", "atline")}
    elif ev.get("e") in ("Crash", "RunCrash"):
        detail = {k: ev.get(k) for k in ("where", "exc", "msg")}
        detail["run_crash"] = run.get("crash", "")
    elif ev.get("e") == "FreshCheck":
        detail = {"only_in_fix_run_report": [[S.text(x[0]), x[1], S.text(x[2])] for x in ev.get("onlyFix", [])], "only_in_fresh_report": [[S.text(x[0]), x[1], S.text(x[2])] for x in ev.get("onlyFresh", [])]}
    elif ev.get("e") == "Reparse":
        detail = {"ok": ev.get("ok"), "msg": ev.get("msg")}
    elif ev.get("e") == "Analyze":
        detail = {k: ev.get(k) for k in ("toiBad", "pure", "impure", "idxOk", "idxWhat")}
    elif ev.get("e") == "Idx":
        detail = {"what": ev.get("what")}
    elif ev.get("e") == "Machinery":
        detail = {"what": ev.get("what")}
    f["detail"] = detail
    return f


def key(f):
    return (f["property"], f["clause"], f.get("rule", ""), f.get("input", ""), f.get("config", ""))


def load_known():
    if not os.path.exists(KNOWN):
        return {"known": [], "fixed": []}
    with open(KNOWN) as fh:
        return json.load(fh)


def matches(entry, f):
    """an entry lists the fields that identify it; a field that is absent or '*' matches anything"""
    pre = entry.get("input_prefix")
    if pre is not None:
        base = f.get("input", "").split("#")[0]
        if not any(base.startswith(x) for x in (pre if isinstance(pre, list) else [pre])):
            return False
    rp = entry.get("rule_prefix")
    if rp is not None and not any(f.get("rule", "").startswith(x) for x in (rp if isinstance(rp, list) else [rp])):
        return False
    ic = entry.get("input_contains")
    if ic is not None and ic not in f.get("input", ""):
        return False
    cc = entry.get("config_contains")
    if cc is not None:
        if not any(x in f.get("config", "") for x in (cc if isinstance(cc, list) else [cc])):
            return False
    for k in ("property", "clause", "rule", "input", "config"):
        v = entry.get(k)
        if v is None or v == "*":
            continue
        have = f.get(k, "")
        if k == "input" and "#damaged:" not in have:
            have = have.split("#")[0]  # a re-layout variant of a listed input is the same finding
        if isinstance(v, list):
            if have not in v:
                return False
        elif have != v:
            return False
    return True


def split_known(findings, prop):
    """-> (known_hits: list of (entry, [findings]), new: [findings])"""
    known = [e for e in load_known().get("known", []) if e.get("property") == prop]
    hits = {}
    new = []
    for f in findings:
        for i, e in enumerate(known):
            if matches(e, f):
                hits.setdefault(i, []).append(f)
                break
        else:
            new.append(f)
    return [(known[i], fs) for i, fs in sorted(hits.items())], new


def write_replay(prop, f, extra=None):
    d = os.path.join(os.environ.get("VSG_VERIF_SCRATCH") or VERIF, "replay", prop)
    os.makedirs(d, exist_ok=True)
    body = dict(f)
    if extra:
        body.update(extra)
    h = hashlib.sha1(json.dumps(key(f)).encode()).hexdigest()[:12]
    p = os.path.join(d, h + ".json")
    with open(p, "w") as fh:
        json.dump(body, fh, indent=1, default=str)
    return p
