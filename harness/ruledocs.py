# -*- coding: utf-8 -*-
"""What each rule is *documented* to be (docs/*_rules.rst), re-read from the working tree on every run.

class of a rule (DESIGN 3.3):
  STRUCT  |structure|                    may add/remove/move non-layout text (documented vocabulary only)
  WS      |whitespace| |indent| |alignment|   only blanks/tabs (and zero-width blank markers)
  VERT    |blank_line|                   only line breaks / blank lines / blanks
  CASE    |case|                         only letter case of the named tokens
  NONE    |naming| |length| |unfixable|  never changes anything
"""
import glob
import os
import re

from vsgenv import REPO

_TAG = re.compile(r"\|([a-z_0-9]+)\|")


def documented_rules(repo=REPO):
    d = {}
    for path in sorted(glob.glob(os.path.join(repo, "docs", "*_rules.rst"))):
        with open(path, encoding="utf-8") as f:
            lines = f.read().split("\n")
        for i in range(len(lines) - 1):
            if lines[i + 1].startswith("####") and re.match(r"^[a-z_]+_[0-9]{3}$", lines[i].strip()):
                rid = lines[i].strip()
                for j in range(i + 2, min(i + 8, len(lines))):
                    if lines[j].startswith("|phase_"):
                        tags = _TAG.findall(lines[j])
                        body = []
                        for k in range(j + 1, len(lines) - 1):
                            if lines[k + 1].startswith("####") and re.match(r"^[a-z_]+_[0-9]{3}$", lines[k].strip()):
                                break
                            body.append(lines[k])
                        body = "\n".join(body)
                        d[rid] = {"tags": tags, "phase": int(tags[0].split("_")[1]), "doc": os.path.basename(path), "may_drop_comments": may_drop(body)}
                        break
    return d


def may_drop(body):
    """rules whose documented purpose includes removing comments (property C02's allow-list):
    trailing comments inside component port/generic clauses and port maps, and the array-structure rules that
    can be configured to collapse an aggregate onto one line"""
    if "configuring_array_multiline_structure_rules_link" in body:
        return True
    if re.search(r"checks for comments at the end of the port and generic", body):
        return True
    return False


def doc_class(tags):
    if "unfixable" in tags or "naming" in tags or "length" in tags:
        return "NONE"
    if "structure" in tags:
        return "STRUCT"
    if "case" in tags:
        return "CASE"
    if "blank_line" in tags:
        return "VERT"
    if "whitespace" in tags or "indent" in tags or "alignment" in tags:
        return "WS"
    return "UNKNOWN"


def attr_class(oRule):
    """class derived from the live rule object (its rule_group), used when a rule has no documentation entry
    (e.g. a rule added by a change); compared with the documented class in the Configured event."""
    groups = set(getattr(oRule, "groups", []) or [])
    top = set(g.split("::")[0] for g in groups)
    if not getattr(oRule, "fixable", True) or "naming" in top or "length" in top:
        return "NONE"
    for g, c in (("structure", "STRUCT"), ("case", "CASE"), ("blank_line", "VERT"), ("whitespace", "WS"), ("indent", "WS"), ("alignment", "WS")):
        if g in top:
            return c
    return "UNKNOWN"
