# -*- coding: utf-8 -*-
"""Configuration space: per-rule option settings harvested from the rules' own unit tests (so every value and every
combination is one the maintainers consider valid), turned into whole-rule-set configuration files.

settings[rule_id] = [ {}, {attr: value, ...}, ... ]   (index 0 = defaults)
sweep config k    = for every rule r with more than one setting: settings[r][1 + (k-1) mod (len-1)]  (k >= 1)
"""
import ast
import glob
import importlib
import json
import os

from vsgenv import REPO

_SKIP_ATTRS = {"violations", "debug", "solution", "name", "identifier", "phase", "subphase", "severity", "fixable"}


def _literal(node):
    try:
        return True, ast.literal_eval(node)
    except Exception:
        return False, None


def harvest(repo=REPO):
    settings = {}
    inputs = {}
    for path in sorted(glob.glob(os.path.join(repo, "tests", "*", "test_rule_*.py"))):
        try:
            tree = ast.parse(open(path, encoding="utf-8").read())
        except SyntaxError:
            continue
        vhd = sorted(glob.glob(os.path.join(os.path.dirname(path), os.path.basename(path)[5:-3] + "_test_input*.vhd")))
        for fn in [n for n in ast.walk(tree) if isinstance(n, ast.FunctionDef) and n.name.startswith("test")]:
            rid = None
            cur = {}
            for st in fn.body:
                if isinstance(st, ast.Assign) and len(st.targets) == 1:
                    tgt = st.targets[0]
                    if isinstance(tgt, ast.Name) and tgt.id == "oRule" and isinstance(st.value, ast.Call):
                        f = st.value.func
                        if isinstance(f, ast.Attribute) and f.attr.startswith("rule_") and isinstance(f.value, ast.Name):
                            rid = (f.value.id, f.attr)
                            cur = {}
                    elif isinstance(tgt, ast.Attribute) and isinstance(tgt.value, ast.Name) and tgt.value.id == "oRule":
                        ok, v = _literal(st.value)
                        if ok and tgt.attr not in _SKIP_ATTRS:
                            cur[tgt.attr] = v
                elif isinstance(st, ast.Expr) and isinstance(st.value, ast.Call):
                    f = st.value.func
                    # oRule.attr.append(literal)
                    if (isinstance(f, ast.Attribute) and f.attr == "append" and isinstance(f.value, ast.Attribute) and isinstance(f.value.value, ast.Name)
                            and f.value.value.id == "oRule" and len(st.value.args) == 1):
                        ok, v = _literal(st.value.args[0])
                        if ok and f.value.attr not in _SKIP_ATTRS:
                            cur.setdefault(f.value.attr, [])
                            if isinstance(cur[f.value.attr], list):
                                cur[f.value.attr] = cur[f.value.attr] + [v]
            if rid is not None:
                settings.setdefault(rid, [])
                if cur and cur not in settings[rid]:
                    settings[rid].append(cur)
                inputs.setdefault(rid, set()).update(vhd)
    # resolve (module name, class name) -> unique id, keep only attributes the rule declares configurable
    out = {}
    out_inputs = {}
    for (mod, cls), lst in settings.items():
        try:
            oRule = getattr(importlib.import_module("vsg.rules." + mod), cls)()
        except Exception:
            continue
        if getattr(oRule, "deprecated", False):
            continue
        conf = set(oRule.configuration)
        good = [{}]
        for s in lst:
            s2 = dict((k, v) for k, v in s.items() if k in conf)
            if s2 and s2 not in good:
                good.append(s2)
        out[oRule.unique_id] = {"settings": good, "disabled_by_default": bool(oRule.disable), "attrs": sorted(conf)}
        out_inputs[oRule.unique_id] = sorted(inputs.get((mod, cls), []))
    return out, out_inputs


def sweep_config(table, k):
    """configuration dict for sweep index k >= 1; returns (dict, set of rule ids with a non-default setting)"""
    rules = {}
    for rid in sorted(table):
        st = table[rid]["settings"]
        if len(st) < 2:
            continue
        s = dict(st[1 + (k - 1) % (len(st) - 1)])
        if table[rid]["disabled_by_default"]:
            s["disable"] = False
        rules[rid] = s
    return {"rule": rules}, set(rules)


PREFIXES = ["i_", "o_", "c_", "g_", "s_", "e_", "t_", "r_", "p_"]
SUFFIXES = ["_t", "_a", "_i", "_o", "_s", "_r", "_n", "_e", "_c", "_g", "_d", "_p"]


def affix_config(table, case):
    """every case rule that supports prefix / suffix exceptions gets a broad list of both, so that many identifiers of the
    corpus fall under an exception (the stem is re-cased, the affix kept)"""
    rules = {}
    for rid in sorted(table):
        at = table[rid].get("attrs", [])
        if "suffix_exceptions" in at and "prefix_exceptions" in at and "case" in at:
            s = {"case": case, "prefix_exceptions": list(PREFIXES), "suffix_exceptions": list(SUFFIXES)}
            if table[rid]["disabled_by_default"]:
                s["disable"] = False
            rules[rid] = s
    return {"rule": rules}, set(rules)


# the documented forms: N, >N, >=N, N+.  (Not 0 on ALL rules at once: "no blank between two words" is a configuration a
# user can write but it asks VSG to glue identifiers together; 0 is explored where the rules' own tests use it.)
NUMBER_OF_SPACES_FORMS = [">1", "2+", ">=2", 2, ">0"]


def number_of_spaces_config(table, value):
    """every rule that has the documented option number_of_spaces gets `value`"""
    rules = {}
    for rid in sorted(table):
        if "number_of_spaces" in table[rid].get("attrs", []):
            s = {"number_of_spaces": value}
            if table[rid]["disabled_by_default"]:
                s["disable"] = False
            rules[rid] = s
    return {"rule": rules}, set(rules)


def max_sweeps(table):
    return max([len(t["settings"]) - 1 for t in table.values()] + [0])


def write_config(d, path):
    with open(path, "w") as f:
        json.dump(d, f, indent=1, sort_keys=True)
    return path


# ------------------------------------------------------------------------------------------------- documented option values
def documented_domains(repo=REPO):
    """option name -> list of documented values, from the tables of docs/configuring_*.rst
    (| |option| | |values_x| | default | ...  with the substitutions defined in the same file, or inline :code: values)"""
    import re

    dom = {}
    for path in sorted(glob.glob(os.path.join(repo, "docs", "configuring_*.rst"))):
        text = open(path, encoding="utf-8").read()
        subs = {}
        for m in re.finditer(r"^\.\. \|([^|]+)\| replace::\s*\n((?:[ \t]+.*\n?)+)", text, re.M):
            subs[m.group(1)] = m.group(2)

        def codes(cell):
            cell = cell.strip()
            out = []
            for part in re.findall(r"\|([^|]+)\|", cell) or []:
                if part in subs:
                    out += re.findall(r":code:`([^`]*)`", subs[part])
            out += re.findall(r":code:`([^`]*)`", cell)
            return out

        for line in text.split("\n"):
            if not line.startswith("|") or line.count("|") < 4:
                continue
            cells = line.strip().strip("|").split("|")
            # split on the column separators only: substitutions contain '|' too, so re-split on ' | ' boundaries
            cells = re.split(r"\s\|\s", " " + line.strip()[1:-1] + " ")
            if len(cells) < 3:
                continue
            names = codes(cells[0])
            vals = codes(cells[1])
            if len(names) != 1 or not vals:
                continue
            name = names[0]
            if not re.match(r"^[a-z_]+$", name):
                continue
            cur = dom.setdefault(name, [])
            for v in vals:
                if v not in cur:
                    cur.append(v)
    return dom


def _pyval(v):
    return v


def _canon(v):
    return {"True": "yes", "False": "no"}.get(str(v), str(v))


_NOT_SCALAR = {"exceptions", "patterns", "standard", "token_after_library_clause", "token_if_no_matching_library_clause", "phase", "severity", "disable", "fixable",
               "indent_style", "indent_size"}


def docval_config(table, k, base=None, flip=False):
    """every option with a documented finite domain gets - on every rule that has the option - its k-th documented value,
    values that no unit test of the rule uses first (k >= 1); on top of `base` (a sweep configuration) if given"""
    dom = documented_domains()
    rules = {}
    tested = {}      # attribute -> values some unit test (of any rule) uses
    for rid in table:
        for s in table[rid]["settings"]:
            for a, v in s.items():
                tested.setdefault(a, set()).add(_canon(v))
    for rid in sorted(table):
        at = table[rid].get("attrs", [])
        s = dict((base or {}).get("rule", {}).get(rid, {}))
        for a in at:
            if a in dom and a not in _NOT_SCALAR:
                import re as _re

                vals = [v for v in dom[a] if _re.match(r"^[a-z_0-9]+$", v)]
                order = [v for v in vals if v not in tested.get(a, set())] + [v for v in vals if v in tested.get(a, set())]
                if order:
                    nun = len([v for v in vals if v not in tested.get(a, set())])
                    # flip: the options that have no untested value take their NEXT value, so that an untested value of one
                    # option meets both values of its companions (docval1: blank_line_ends_group yes, docval1f: no)
                    j = (k - 1) if (not flip or k <= nun) else k
                    s[a] = _pyval(order[j % len(order)])
        if s:
            if table[rid]["disabled_by_default"]:
                s["disable"] = False
            rules[rid] = s
    return {"rule": rules}, set(rules)


# ------------------------------------------------------------------------------------------------- example configurations of the docs
def doc_example_configs(repo=REPO):
    """every YAML / JSON example configuration the documentation shows (code blocks of docs/*.rst that contain a `rule:` section),
    as (name, dict, [rule ids it configures]); placeholders such as <rule_id> are skipped"""
    import re

    import yaml

    out = []
    seen = set()
    for path in sorted(glob.glob(os.path.join(repo, "docs", "*.rst"))):
        text = open(path, encoding="utf-8").read()
        for m in re.finditer(r"^\.\. code-block:: (yaml|json)\s*\n((?:\n|[ \t]+.*\n)+)", text, re.M):
            body = m.group(2)
            lines = [l for l in body.split("\n")]
            ind = min((len(l) - len(l.lstrip()) for l in lines if l.strip()), default=0)
            src = "\n".join(l[ind:] for l in lines)
            if "rule" not in src or "<" in src:
                continue
            try:
                d = yaml.safe_load(src) if m.group(1) == "yaml" else json.loads(src)
            except Exception:
                continue
            if not isinstance(d, dict) or not isinstance(d.get("rule"), dict):
                continue
            rule = dict((k, v) for k, v in d["rule"].items() if isinstance(v, dict))
            if not rule:
                continue
            key = json.dumps(rule, sort_keys=True, default=str)
            if key in seen:
                continue
            seen.add(key)
            rids = sorted(k for k in rule if re.match(r"^[a-z_]+_[0-9]{3}$", k))
            cfg = {"rule": rule}
            for extra in ("indent",):
                if isinstance(d.get(extra), dict):
                    cfg[extra] = d[extra]
            out.append(("doc:%s#%d" % (os.path.basename(path)[:-4], len(out) + 1), cfg, rids))
    return out


def doc_example_bundles(repo=REPO, skip_ids=()):
    """the documentation's example configurations merged into as few whole configurations as possible: an example joins the first
    bundle that does not yet configure any of its keys (rule ids, global, group names); placeholders and examples that need a
    user-defined severity are left out.  -> [(config dict, [rule ids])]"""
    bundles = []
    for name, cfg, rids in doc_example_configs(repo):
        flat = json.dumps(cfg)
        if "attributeName" in flat or "ruleId_" in flat or '"severity"' in flat or "group_name" in flat:
            continue
        if any(r in skip_ids for r in rids):
            continue      # the example names a rule that has since been deprecated (e.g. signal_016): VSG rejects the whole configuration
        if '"regex"' in flat and '"case": "regex"' in flat:
            continue      # naming by regular expression cannot be repaired by construction (the known C07 category "reports what it cannot repair"; explored through the option sweeps)
        keys = set()
        for k, v in cfg["rule"].items():
            if k == "group":
                keys |= set("group:" + g for g in v)
            else:
                keys.add(k)
        for b in bundles:
            if not (b["keys"] & keys) and not ("indent" in cfg and "indent" in b["cfg"]):
                break
        else:
            b = {"keys": set(), "cfg": {"rule": {}}, "rids": [], "names": []}
            bundles.append(b)
        b["keys"] |= keys
        for k, v in cfg["rule"].items():
            if k == "group":
                b["cfg"]["rule"].setdefault("group", {}).update(v)
            else:
                b["cfg"]["rule"][k] = v
        if "indent" in cfg:
            b["cfg"]["indent"] = cfg["indent"]
        b["rids"] += rids
        b["names"].append(name)
    return [(b["cfg"], sorted(set(b["rids"])), b["names"]) for b in bundles]
