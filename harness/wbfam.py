# -*- coding: utf-8 -*-
"""C16 - write-back is all-or-nothing and keeps the mode (and C04's "a clean file is never rewritten" at the level of
system calls): design-level TLC over spec/WriteBack.tla (+2 mutants), fault/kill schedules replayed on the unmodified
CLI under strace, recorded calls and resulting disk state validated by TLC against spec/WriteBackTrace.tla."""
import json
import os
import shutil
import subprocess
import time

import common
import findings as F
import orchestrate
import tlc
from tagfam import _run_jobs

REPO = common.REPO
ERRORS_QUICK = {"openat": ["EACCES", "ENOSPC", "KILL"], "write": ["ENOSPC", "KILL"], "chmod": ["EPERM", "KILL"], "rename": ["EACCES", "KILL"],
                "sendfile": ["ENOSPC", "KILL"], "close": ["EIO"], "unlink": ["KILL"], "utimensat": ["EPERM"]}
ERRORS_THOROUGH = {"openat": ["EACCES", "ENOSPC", "EROFS", "EIO", "KILL"], "write": ["ENOSPC", "EIO", "KILL"], "chmod": ["EPERM", "EROFS", "KILL"],
                   "rename": ["EACCES", "EXDEV", "ENOSPC", "KILL"], "sendfile": ["ENOSPC", "EIO", "KILL"], "close": ["EIO", "KILL"], "unlink": ["EACCES", "KILL"],
                   "utimensat": ["EPERM", "KILL"], "newfstatat": ["EACCES", "KILL"], "read": ["EIO", "KILL"], "listxattr": ["KILL"]}


def _cli_fix(path, args):
    env = dict(os.environ)
    env.pop("VSG_VERIF_TRACE", None)
    env["PYTHONDONTWRITEBYTECODE"] = "1"
    return subprocess.run([orchestrate.PY, os.path.join(REPO, "bin", "vsg"), "-f", path, "-p", "1"] + args, stdout=subprocess.PIPE, stderr=subprocess.STDOUT, env=env, timeout=600)


def make_inputs(wd, tier):
    """builds the scenario input files under wd/in; returns dict name -> path"""
    d = os.path.join(wd, "in")
    os.makedirs(d)
    out = {}
    small = os.path.join(REPO, "tests", "styles", "code_examples", "comments.vhd")
    out["small"] = small
    # a fixed point: fix until the text is stable
    fp = os.path.join(d, "fixedpoint.vhd")
    shutil.copyfile(os.path.join(REPO, "tests", "styles", "code_examples", "spi_master.vhd"), fp)
    last = None
    for _ in range(4):
        _cli_fix(fp, ["--fix"])
        now = open(fp, "rb").read()
        if now == last:
            out["fixedpoint"] = fp
            break
        last = now
    big = os.path.join(d, "big.vhd")
    with open(os.path.join(REPO, "tests", "styles", "code_examples", "PIC.vhd"), "rb") as f:
        one = f.read()
    with open(big, "wb") as f:
        f.write(one * (1 + 70000 // max(1, len(one))))
    out["big"] = big
    rej = os.path.join(d, "rejected.vhd")
    with open(rej, "w") as f:
        f.write("entity e is\n  port (a : in std_logic;\nend entity e\n\narchitecture a of e is\nbegin\n  process begin end end end;\n")
    out["rejected"] = rej
    crasher = os.path.join(REPO, "tests", "constant", "rule_017_test_input.vhd")
    if os.path.exists(crasher):
        out["crasher"] = crasher
    cfg = os.path.join(d, "no_ws001.yaml")
    with open(cfg, "w") as f:
        f.write("rule:\n  whitespace_001:\n    disable: true\n")
    out["no_ws001"] = cfg
    return out


def scenarios(inputs, tier):
    scs = []
    sid = [0]

    def add(src, mode, umask, backup, stale, args, expand=False, clean=False, kind="", transform=None, jobs=1, hardlink=False):
        sid[0] += 1
        scs.append({"id": sid[0] * 100000, "src": src, "mode": mode, "umask": umask, "backup": backup, "stale": stale, "args": args + (["--backup"] if backup else []),
                    "expand": expand, "clean": clean, "kind": kind, "transform": transform, "jobs": jobs, "hardlink": hardlink})

    s = inputs["small"]
    add(s, 0o664, 0o022, False, 0, ["--fix"], expand=True, kind="base")
    add(s, 0o644, 0o022, True, 0, ["--fix"], expand=True, kind="base+backup")
    add(s, 0o664, 0o022, False, 0o600, ["--fix"], expand=True, kind="base+stale")
    add(s, 0o640, 0o077, True, 0, ["--fix"], expand=(tier == "thorough"), kind="base+umask077")
    add(s, 0o755, 0o002, False, 0o644, ["--fix"], expand=(tier == "thorough"), kind="base+0755")
    add(s, 0o666, 0o027, True, 0o600, ["--fix"], expand=(tier == "thorough"), kind="base+0666")
    add(inputs["big"], 0o664, 0o022, True, 0, ["--fix"], expand=(tier == "thorough"), kind="big")
    add(s, 0o664, 0o022, False, 0, ["--fix", "--fix_phase", "3"], expand=False, kind="fix_phase3")
    # the write-back happens in a pool worker when several jobs are asked for
    add(s, 0o664, 0o022, True, 0o600, ["--fix"], expand=(tier == "thorough"), kind="jobs2", jobs=2)
    # the file has a second name (hard link): the protocol is the same, the other name keeps the original
    add(s, 0o664, 0o022, False, 0, ["--fix"], expand=True, kind="hardlink", hardlink=True)
    add(inputs["big"], 0o640, 0o022, True, 0, ["--fix"], expand=(tier == "thorough"), kind="hardlink+big", hardlink=True)
    # nothing to write: the target must see no mutating call at all
    add(s, 0o664, 0o022, False, 0, [], clean=True, kind="check-only")
    add(s, 0o664, 0o022, False, 0, ["-ap", "-of", "syntastic"], clean=True, kind="check-only")
    if "fixedpoint" in inputs:
        add(inputs["fixedpoint"], 0o664, 0o022, False, 0, ["--fix"], clean=True, kind="fixedpoint")
        add(inputs["fixedpoint"], 0o600, 0o022, True, 0, ["--fix"], clean=False, kind="fixedpoint+backup")
        add(inputs["fixedpoint"], 0o664, 0o022, False, 0, ["--fix"], clean=True, kind="fixedpoint-crlf", transform="crlf")
        add(inputs["fixedpoint"], 0o664, 0o022, False, 0, ["--fix"], clean=True, kind="fixedpoint-nofinalnl", transform="nofinalnl")
        # trailing blanks that no enabled rule reports (rule disabled / inside a code-tag region): still nothing to fix
        add(inputs["fixedpoint"], 0o664, 0o022, False, 0, ["--fix", "-c", inputs["no_ws001"]], clean=True, kind="fixedpoint-trailws-disabled", transform="trailws")
        add(inputs["fixedpoint"], 0o664, 0o022, False, 0, ["--fix"], clean=True, kind="fixedpoint-trailws-tagged", transform="trailws_tagged")
    add(inputs["rejected"], 0o664, 0o022, False, 0, ["--fix"], clean=True, kind="rejected")
    add(inputs["rejected"], 0o664, 0o022, False, 0o600, ["--fix"], clean=True, kind="rejected+stale")
    if "crasher" in inputs:
        add(inputs["crasher"], 0o664, 0o022, False, 0, ["--fix"], clean=False, kind="rule-raises")
    return scs


FAMILY_FILES = ['harness/wbfam.py', 'harness/wbrun.py', 'harness/tagfam.py', 'spec/WriteBack.tla', 'spec/WriteBackOps.tla', 'spec/WriteBackTrace.tla', 'spec/WriteBackTrace.cfg', 'spec/MC_WriteBack.cfg', 'spec/Mutant_WriteBack_NoChmod.cfg', 'spec/Mutant_WriteBack_InPlace.cfg']


def collect(tier):
    th = common.tree_hash(FAMILY_FILES)
    key = "%s/wbfam_%s_%d" % (th, tier, common.seed())
    with common.Lock("wbfam_" + tier):
        cd = common.cache_dir(key)
        rp = os.path.join(cd, "result.json")
        if os.path.exists(rp):
            r = json.load(open(rp))
            r["cached"] = True
            return r
        r = _collect(tier)
        json.dump(r, open(rp, "w"))
        r["cached"] = False
        return r


def _collect(tier):
    t0 = time.time()
    wd = orchestrate.workdir("wbfam_" + tier)
    design = []
    for cfg, expect in (("MC_WriteBack.cfg", None), ("Mutant_WriteBack_NoChmod.cfg", "C16_ModeKept"), ("Mutant_WriteBack_InPlace.cfg", "C16_Atomic")):
        res = tlc.model_check("WriteBack", cfg, workers=4, timeout=600)
        ok = res.ok if expect is None else ("Invariant %s is violated" % expect) in res.out
        design.append({"module": "WriteBack", "cfg": cfg, "ok": ok, "states": res.states, "distinct": res.distinct, "expect": expect or "no error", "error": res.error[:300]})
    inputs = make_inputs(wd, tier)
    scs = scenarios(inputs, tier)
    errors = ERRORS_QUICK if tier == "quick" else ERRORS_THOROUGH
    # one job per scenario (the expansion into fault schedules happens inside the job); run 16 at a time
    jobs = []
    for k, sc in enumerate(scs):
        jobs.append({"out": os.path.join(wd, "wb%02d.json" % k), "work": os.path.join(wd, "w%02d" % k), "scenarios": [sc], "errors": errors, "next_id": sc["id"]})
    # split the expansion of the expanding scenarios further: one job per (scenario, call)
    jobs2 = []
    for j in jobs:
        sc = j["scenarios"][0]
        if sc["expand"]:
            # the large file is slow to fix: fail / kill only the calls of the write path for it
            errs_sc = ERRORS_QUICK if sc["kind"] == "big" else errors
            for call in sorted(errs_sc):
                jj = dict(j)
                jj["errors"] = {call: errs_sc[call]}
                jj["out"] = j["out"].replace(".json", "_%s.json" % call)
                jj["work"] = j["work"] + "_" + call
                jj["next_id"] = sc["id"] + 1000 * (1 + sorted(errs_sc).index(call))
                jj["drop_base"] = True
                jobs2.append(jj)
            j = dict(j)
            j["errors"] = {}
        jobs2.append(j)
    outs = []
    for i in range(0, len(jobs2), 16):
        outs += _run_jobs(jobs2[i : i + 16], wd, "wbrun.py")
    # drop the duplicated base records of the per-call jobs
    merged = os.path.join(wd, "all.json")
    recs = []
    seen = set()
    for o in outs:
        for r in json.load(open(o))["recs"]:
            if r["id"] in seen:
                continue
            seen.add(r["id"])
            recs.append(r)
    mach = [r for r in recs if "machinery" in r]
    recs = [r for r in recs if "machinery" not in r]
    shards = []
    n = 8
    for k in range(n):
        p = os.path.join(wd, "shard%02d.json" % k)
        json.dump({"recs": recs[k::n]}, open(p, "w"))
        shards.append(p)
    t1 = time.time()
    results = tlc.validate_shards(shards, module="WriteBackTrace", parallel=8)
    findings = []
    stats = {"runs": len(recs), "faulted": 0, "killed": 0, "with_mutating_calls": 0, "tlc_states": 0, "tlc_errors": [], "unfinished": [], "machinery": mach[:3], "kinds": {}, "tracebacks": 0,
             "injections": {}}
    samples = []
    byid = dict((r["id"], r) for r in recs)
    for r in recs:
        stats["faulted"] += 1 if r["faulted"] else 0
        stats["killed"] += 1 if r["killed"] else 0
        stats["with_mutating_calls"] += 1 if r["ev"] else 0
        stats["kinds"][r["kind"]] = stats["kinds"].get(r["kind"], 0) + 1
        stats["tracebacks"] += 1 if r["traceback"] else 0
        if r["inject"]:
            k = r["inject"]["call"] + ":" + r["inject"].get("error", r["inject"].get("signal", ""))
            stats["injections"][k] = stats["injections"].get(k, 0) + 1
        if len(samples) < 3 and r["inject"] and r["ev"]:
            samples.append({"scenario": r["kind"], "inject": r["inject"], "calls": ["%s(%s)%s" % (e["c"], e["obj"], "" if e["ok"] else "=fail") for e in r["ev"]],
                            "final": r["final"], "rc": r["rc"], "killed": r["killed"]})
    for path, res in results:
        stats["tlc_states"] += res.states
        ids = [x["id"] for x in json.load(open(path))["recs"]]
        if not res.ok:
            stats["tlc_errors"].append({"shard": os.path.basename(path), "error": res.error[:400]})
        for i in ids:
            if i not in res.done:
                stats["unfinished"].append(i)
        for rid, i, clause in res.verdicts:
            r = byid[rid]
            inj = r["inject"]
            findings.append({"property": clause.split("_")[0], "clause": clause, "rule": "", "input": r["kind"],
                             "config": ("%s:%s:%s" % (inj["call"], inj.get("error", inj.get("signal")), inj["when"])) if inj else "no-fault",
                             "detail": {"args": r["args"], "mode": oct(r["origMode"]), "umask": oct(r["umask"]), "stale": oct(r["stale"]), "backup": r["backup"], "step": i,
                                        "calls": ["%s(%s)%s" % (e["c"], e["obj"], "" if e["ok"] else "=fail") for e in r["ev"]], "final": r["final"], "rc": r["rc"],
                                        "killed": r["killed"], "output_tail": r["output_tail"]}})
    stats["wall"] = {"drivers": round(t1 - t0, 1), "tlc": round(time.time() - t1, 1)}
    shutil.rmtree(wd, ignore_errors=True)
    return {"findings": findings, "stats": stats, "design": design, "samples": samples}


def check(prop, tier):
    t0 = time.time()
    r = collect(tier)
    st = r["stats"]
    bad = [d for d in r["design"] if not d["ok"]]
    mach = [f for f in r["findings"] if f["clause"].startswith("B_")]
    if st["tlc_errors"] or st["unfinished"] or bad or st["machinery"] or mach:
        common.machinery("wb: tlc=%s unfinished=%s design=%s machinery=%s binding=%s" % (st["tlc_errors"][:2], st["unfinished"][:3], bad, st["machinery"], [(f["clause"], f["input"], f["config"]) for f in mach[:3]]))
    mine = [f for f in r["findings"] if f["property"] == prop]
    # "a file that fails to parse or configure is never modified", on multi-file / multi-job invocations (spec/Main.tla)
    import batchfam

    bf, binfo = batchfam.extra_findings(prop, tier)
    mine += bf
    known_hits, new = F.split_known(mine, prop)
    rc = common.report(prop, known_hits, new, lambda f: F.write_replay(prop, f))
    cov = {
        "evaluations": st["runs"],
        "distinct_nontrivial": st["faulted"] + st["killed"],
        "rule": "one run of the unmodified CLI under strace per (scenario, injected system-call failure or SIGKILL at the k-th call touching target/.tmp/.bak); "
                "non-trivial = a fault or kill was injected; scenarios: file modes x umask x stale .tmp x --backup x clean/rejected/crashing inputs",
        "samples": r["samples"],
        "states": sum(d["states"] for d in r["design"]) + st["tlc_states"],
        "transitions": sum(d["states"] for d in r["design"]) + st["tlc_states"],
        "traces_validated_against_impl": st["runs"],
        "design_models": r["design"],
        "command_line_model": binfo,
        "runs_with_mutating_calls": st["with_mutating_calls"],
        "runs_faulted": st["faulted"],
        "runs_killed": st["killed"],
        "runs_ending_in_traceback": st["tracebacks"],
        "injections": st["injections"],
        "scenario_kinds": st["kinds"],
        "from_cache": r.get("cached", False),
        "collection_wall_s": st["wall"],
    }
    common.write_evidence(prop, tier, "fault_enumeration", cov, time.time() - t0, len(new),
                          ["strace reports system calls faithfully; an injected failure means the call did not execute", "Linux semantics of open(O_CREAT|O_TRUNC)/rename/chmod as in WriteBackOps.tla Effect",
                           "faults are injected on the calls that touch the target, its .tmp and its .bak; single process (-p 1)"])
    return rc
