# -*- coding: utf-8 -*-
"""The fix-run family of checks (C01 C02 C03 C07 C08 C10 C18 C19 and the fix-side clauses of C13/C20):
record executions of the real fix pipeline, validate them against spec/FixTrace.tla with TLC, and model-check the
design-level spec/FixPipeline.tla.  One collection serves every property of the family (cached per tree hash)."""
import json
import os
import random
import shutil
import time

import common
import corpus
import findings as F
import orchestrate
import tlc

DESIGN = {  # tier -> (module, cfg, serves)
    "quick": [("FixPipeline", "MC_FixPipeline_quick.cfg", {"C01", "C02", "C03", "C07", "C18"}),
              ("FixSchedule", "MC_FixSchedule_quick.cfg", {"C03", "C09", "C10", "C19"}),
              ("ParseEmit", "MC_ParseEmit.cfg", {"C08", "C02"}),
              ("Converge", "MC_Converge.cfg", {"C09", "C10", "C08"})],
    "thorough": [("FixPipeline", "MC_FixPipeline_thorough.cfg", {"C01", "C02", "C03", "C07", "C18"}),
                 ("FixSchedule", "MC_FixSchedule_thorough.cfg", {"C03", "C09", "C10", "C19"}),
                 ("ParseEmit", "MC_ParseEmit.cfg", {"C08", "C02"}),
                 ("Converge", "MC_Converge_thorough.cfg", {"C09", "C10", "C08"})],
}
MUTANTS = [  # (module, cfg, invariant that must be reported violated)
    ("FixPipeline", "Mutant_FixPipeline_Forward.cfg", "C18_StepIsSumOfHunks"),
    ("FixPipeline", "Mutant_FixPipeline_Overlap.cfg", "C18_StepIsSumOfHunks"),
    ("FixPipeline", "Mutant_FixPipeline_NoRemap.cfg", "C18_IndexAgrees"),
    ("FixPipeline", "Mutant_FixPipeline_CaseLit.cfg", "C01_CodePreserved"),
    ("FixSchedule", "Mutant_FixSchedule_LinesIgnored.cfg", "Inv_C20_OnlyListed"),
    ("FixSchedule", "Mutant_FixSchedule_OffByOne.cfg", "Inv_C13_FixPhase"),
    ("ParseEmit", "Mutant_ParseEmit_AdjacentWords.cfg", "C08_WriteIsReadIffCanonical"),
    ("Converge", "Mutant_Converge_NotIdempotent.cfg", "C09_SecondFixChangesNothing"),
    ("Converge", "Mutant_Converge_NoDiscipline.cfg", "C09_SecondFixChangesNothing"),
    ("Converge", "Mutant_Converge_NotCanonical.cfg", "C09_SecondFixChangesNothing"),
]

FAMILY = ["C01", "C02", "C03", "C07", "C08", "C09", "C10", "C18", "C19"]


def build_items(tier, seed, wd):
    import configs

    paths = corpus.all_vhd()
    items = []
    tid = 0

    def add(p, args, tag):
        nonlocal tid
        tid += 1
        items.append({"tid": tid, "path": p, "name": corpus.rel(p), "args": args, "tag": tag})

    # default configuration: every fixture; in the quick tier the golden outputs (*.fixed*.vhd, two thirds of the corpus and
    # mostly clean) are sampled one in three, the inputs are all in
    rnd0 = random.Random(seed + 99)
    for p in paths:
        if tier == "quick" and ".fixed" in os.path.basename(p) and rnd0.random() > 1.0 / 3:
            continue
        add(p, ["--fix"], "default")
        items[-1]["fresh"] = True        # C08: the report at the end of the fix run vs a fresh check of the written file
    n_style = 120 if tier == "quick" else len(paths)
    sample = corpus.stratified_sample(paths, n_style, seed)
    for p in sample:
        add(p, ["--fix", "--style", "jcl"], "jcl")
    if tier == "thorough":
        for p in sample:
            add(p, ["--fix", "--style", "indent_only"], "indent_only")
    # option sweep: settings the rules' own unit tests use, all rules at once (harness/configs.py)
    table, inputs = configs.harvest()
    nsweeps = 2 if tier == "quick" else min(12, configs.max_sweeps(table))
    sweeps = {}
    for k in range(1, nsweeps + 1):
        cfg, rules = configs.sweep_config(table, k)
        sweeps["sweep%d" % k] = cfg["rule"]
        cfgfile = configs.write_config(cfg, os.path.join(wd, "sweep%d.json" % k))
        if tier == "quick":
            files = sorted(set(f for r in rules for f in inputs.get(r, []) if f.endswith("_test_input.vhd")))
        else:
            files = sorted(set(f for r in rules for f in inputs.get(r, [])))
        for p in files:
            add(p, ["--fix", "-c", cfgfile], "sweep%d" % k)
    # documented option values no unit test uses (docs/configuring_*.rst tables), on every rule that has the option, with both
    # values of the companion options (harness/configs.py docval_config)
    # (..b: the same configuration with yes / no written as booleans - what an unquoted yes / no in a YAML file is read as)
    # (the families added in the second session keep the quick-tier extent in the thorough tier: the thorough tier of the older
    # families was baselined over every input, these were not - see DESIGN 0.6)
    dv = [(1, False, False), (1, True, False), (1, True, True)]
    for k, flip, asbool in dv:
        cfg, rules = configs.docval_config(table, k, flip=flip)
        if asbool:
            cfg = {"rule": dict((rid, dict((a, {"yes": True, "no": False}.get(v, v) if isinstance(v, str) else v) for a, v in st.items())) for rid, st in cfg["rule"].items())}
        tag = "docval%d%s%s" % (k, "f" if flip else "", "b" if asbool else "")
        sweeps[tag] = cfg["rule"]
        cfgfile = configs.write_config(cfg, os.path.join(wd, tag + ".json"))
        untested = sorted(r for r in rules if any(a in ("case_control_statements_ends_group", "new_line_after_comma", "align_to", "alignment", "method", "action") for a in cfg["rule"][r]))
        files = sorted(set(f for r in untested for f in inputs.get(r, []) if f.endswith("_test_input.vhd"))) + [p for p in paths if "/styles/code_examples/" in p and p.endswith(".vhd")]
        for p in corpus.stratified_sample(files, 150, seed + 61 + k, always=("/styles/code_examples/",)):
            add(p, ["--fix", "-c", cfgfile], tag)
    # the example configurations the documentation shows (docs/*.rst code blocks), merged into a few whole configurations
    import cfgrun

    bundles = configs.doc_example_bundles(skip_ids=set(cfgrun.rule_meta()[3]))
    for k, (cfg, rids, names) in enumerate(bundles[:3]):
        tag = "docex%d" % (k + 1)
        sweeps[tag] = cfg["rule"]
        cfgfile = configs.write_config(cfg, os.path.join(wd, tag + ".json"))
        files = sorted(set(f for r in rids for f in inputs.get(r, []) if f.endswith("_test_input.vhd"))) + [p for p in paths if "/styles/code_examples/" in p and p.endswith(".vhd")]
        for p in corpus.stratified_sample(files, 90, seed + 71 + k, always=("/styles/code_examples/",)):
            add(p, ["--fix", "-c", cfgfile], tag)
    # prefix / suffix exceptions of the case rules with a broad list of affixes, on files whose identifiers carry them
    for cname in (["upper"] if tier == "quick" else ["upper", "lower"]):
        cfg, rules = configs.affix_config(table, cname)
        if rules:
            cfgfile = configs.write_config(cfg, os.path.join(wd, "affix_%s.json" % cname))
            sweeps["affix_" + cname] = cfg["rule"]
            cand = [p for p in paths if p.endswith("_test_input.vhd") or "/styles/code_examples/" in p]
            files = corpus.stratified_sample(cand, 160 if tier == "quick" else len(cand), seed + 5, always=("/styles/code_examples/",))
            for p in files:
                add(p, ["--fix", "-c", cfgfile], "affix_" + cname)
    # schedule scenarios: --fix_phase / skip_phase (the clean-up and indent points of rule_list.fix move with them)
    # (not: skip_phase [1].  Without the phase-1 clean-up and structure fixes most alignment rules are not idempotent on the
    # tab-indented examples - C10 deviations that are genuine by the letter of the property but were not triaged one by one;
    # skipping phase 1 is explored for the schedule and gating clauses of C13 only.  A stated limit, DESIGN 0.6.)
    # (nor skip_phase [2, 4]: signal_012 and other alignment rules are not idempotent when the whitespace / indent phases are left out.)
    scheds = [["--fix_phase", "4"], ["--skip_phase", "3"], ["--fix_phase", "2"]]
    cand = [p for p in paths if p.endswith("_test_input.vhd") or "/styles/code_examples/" in p]
    for k, extra in enumerate(scheds):
        files = corpus.stratified_sample(cand, 60, seed + 31 + k, always=("/styles/code_examples/",))
        for p in files:
            add(p, ["--fix"] + extra, "sched:" + "_".join(extra).replace("--", ""))
    # the other documented indent style, given globally; two successive --fix runs (convergence under that style)
    st_cfg = configs.write_config({"rule": {"global": {"indent_style": "smart_tabs"}}}, os.path.join(wd, "smart_tabs.json"))
    sweeps["smart_tabs"] = {}
    cand = [p for p in paths if p.endswith("_test_input.vhd") or "/styles/code_examples/" in p]
    for p in corpus.stratified_sample(cand, 90, seed + 41, always=("/styles/code_examples/",)):
        tid += 1
        items.append({"tid": tid, "path": p, "name": corpus.rel(p), "args": ["--fix", "-c", st_cfg], "tag": "smart_tabs", "rounds": 2})
    # generated designs (harness/gendesign.py): a fixed second corpus in which constructs meet that no fixture combines
    import gendesign

    for name, text in gendesign.designs(60 if tier == "quick" else 300):
        tid += 1
        items.append({"tid": tid, "text": text, "name": name, "args": ["--fix"], "tag": "default"})
    # every documented form of number_of_spaces on all rules that have the option
    forms = configs.NUMBER_OF_SPACES_FORMS[:2] if tier == "quick" else configs.NUMBER_OF_SPACES_FORMS
    for k, form in enumerate(forms):
        cfg, rules = configs.number_of_spaces_config(table, form)
        if rules:
            tag = "nspaces:%s" % form
            cfgfile = configs.write_config(cfg, os.path.join(wd, tag + ".json"))
            sweeps[tag] = cfg["rule"]
            cand = sorted(set(f for r in rules for f in inputs.get(r, []) if f.endswith("_test_input.vhd"))) + [p for p in paths if "/styles/code_examples/" in p and p.endswith(".vhd")]
            files = corpus.stratified_sample(cand, 130 if tier == "quick" else len(cand), seed + 7 + k, always=("/styles/code_examples/spi", "/styles/code_examples/PIC"))
            for p in files:
                add(p, ["--fix", "-c", cfgfile], tag)
    # meaning-preserving re-layouts (harness/variants.py): comments at line ends / on own lines, line breaks, case
    import variants

    base_inputs = [p for p in paths if p.endswith("_test_input.vhd") or "/styles/code_examples/" in p or "/rule_doc/" in p]
    # comments at every line end / between all lines, case, spacing.  (Line-break and join recipes are used for C05 -
    # classification - where the property names them; see DESIGN.md section 5 for why the fix family leaves them out.)
    recipes = ["eol1", "eolt1", "own1", "upper", "widen", "tight", "lopl", "ownutf8a", "ownctl"] if tier == "quick" else ["lopl", "eol1", "eolt1", "eol3a", "eol3b", "own1", "own3", "upper", "lower", "flip", "widen", "narrow", "tight", "ownutf8a", "ownctl"]  # not: break*, join*, breakcmt*
    for ri, rname in enumerate(recipes):
        nsel = 80 if tier == "quick" or rname in ("tight", "lopl", "lopr") else len(base_inputs)
        if rname.startswith(("ownutf8", "ownctl")):
            nsel = 30      # non-ASCII text in front of the file (file > 8 KiB, multi-byte characters across block boundaries)
        chosen = corpus.stratified_sample(base_inputs, nsel, seed + 17 * (ri + 1), always=("/styles/code_examples/",))
        for p in chosen:
            try:
                with open(p, encoding="utf-8", newline="") as f:
                    text = f.read()
            except (OSError, UnicodeDecodeError):
                continue
            v = variants.apply(rname, text)
            if v is None:
                continue
            tid += 1
            items.append({"tid": tid, "text": v, "name": corpus.rel(p) + "#" + rname, "args": ["--fix"], "tag": "variant:" + rname})
    return items, sweeps


FAMILY_FILES = ['spec/ConvergeProof.tla', 'spec/Converge.tla', 'spec/MC_Converge.cfg', 'spec/MC_Converge_thorough.cfg', 'spec/ParseEmit.tla', 'spec/MC_ParseEmit.cfg', 'harness/gendesign.py', 'spec/FixSchedule.tla', 'spec/MC_FixSchedule_quick.cfg', 'spec/MC_FixSchedule_thorough.cfg', 'harness/fixfam.py', 'harness/runfix.py', 'harness/configs.py', 'harness/variants.py', 'harness/vlex.py', 'spec/Edits.tla', 'spec/FixTrace.tla', 'spec/FixTrace.cfg', 'spec/FixPipeline.tla', 'spec/MC_FixPipeline_quick.cfg', 'spec/MC_FixPipeline_thorough.cfg']


def collect(tier):
    th = common.tree_hash(FAMILY_FILES)
    key = "%s/fixfam_%s_%d" % (th, tier, common.seed())
    with common.Lock("fixfam_" + tier):
        cd = common.cache_dir(key)
        res_path = os.path.join(cd, "result.json")
        if os.path.exists(res_path):
            with open(res_path) as f:
                r = json.load(f)
            r["cached"] = True
            return r
        common.prune_cache(th)
        r = _collect(tier, cd)
        with open(res_path, "w") as f:
            json.dump(r, f)
        r["cached"] = False
        return r


def run_design(tier):
    out = []
    for module, cfg, props in DESIGN[tier]:
        if not os.path.exists(os.path.join(tlc.SPEC, cfg)):
            continue
        t0 = time.time()
        res = tlc.model_check(module, cfg, workers=16, timeout=1800)
        out.append({"module": module, "cfg": cfg, "ok": res.ok, "states": res.states, "distinct": res.distinct, "wall": round(time.time() - t0, 1),
                    "error": res.error[:500], "props": sorted(props), "expect": "no error"})
    # the same argument for ANY number of rules: TLAPS proof spec/ConvergeProof.tla (47 obligations, a few seconds)
    out.append(run_tlaps("ConvergeProof", ["Converge.tla", "ConvergeProof.tla"], {"C09"}))
    # vacuity guard: every mechanism mutant must still produce its counterexample
    for module, cfg, inv in MUTANTS:
        t0 = time.time()
        res = tlc.model_check(module, cfg, workers=8, timeout=900)
        out.append({"module": module, "cfg": cfg, "ok": ("Invariant %s is violated" % inv) in res.out, "states": res.states, "distinct": res.distinct,
                    "wall": round(time.time() - t0, 1), "error": res.error[:300], "props": [], "expect": inv + " violated"})
    return out


def run_tlaps(module, files, props):
    """checks a TLAPS proof in a scratch copy (tlapm writes its cache next to the module); ok = every obligation proved"""
    import re
    import subprocess

    t0 = time.time()
    d = os.path.join(common.WORK, "tlaps_" + module)
    shutil.rmtree(d, ignore_errors=True)
    os.makedirs(d)
    for f in files:
        shutil.copyfile(os.path.join(tlc.SPEC, f), os.path.join(d, os.path.basename(f)))
    try:
        p = subprocess.run(["tlapm", "--cleanfp", module + ".tla"], cwd=d, stdout=subprocess.PIPE, stderr=subprocess.STDOUT, timeout=900)
        text = p.stdout.decode(errors="replace")
    except OSError as e:     # the proof system is an extra: without it the TLC-checked bounded statement stands alone
        shutil.rmtree(d, ignore_errors=True)
        return {"module": module, "cfg": "tlapm", "ok": True, "states": 0, "distinct": 0, "obligations_proved": 0, "wall": 0, "error": "tlapm not available: %r" % e, "props": sorted(props),
                "expect": "all obligations proved (skipped)"}
    except subprocess.TimeoutExpired as e:
        text = "tlapm: %r" % e
    m = re.search(r"All (\d+) obligations? proved", text)
    shutil.rmtree(d, ignore_errors=True)
    return {"module": module, "cfg": "tlapm", "ok": bool(m), "states": 0, "distinct": 0, "obligations_proved": int(m.group(1)) if m else 0, "wall": round(time.time() - t0, 1),
            "error": "" if m else text[-400:], "props": sorted(props), "expect": "all obligations proved"}


def _collect(tier, cd):
    t0 = time.time()
    seed = common.seed()
    wd = orchestrate.workdir("fixfam_" + tier)
    items, sweeps = build_items(tier, seed, wd)
    design = run_design(tier)
    t1 = time.time()
    outs = orchestrate.run_shards(items, wd, shards=32, probe=True, reparse=True, rounds=(2 if tier == "quick" else 4))  # per item: only items tagged "default" repeat
    t2 = time.time()
    results = tlc.validate_shards(outs, module="FixTrace", parallel=16)
    t3 = time.time()
    all_findings = []
    stats = {"traces": 0, "traces_nontrivial": 0, "fix_events": 0, "windows": 0, "probes": 0, "analyses": 0, "tois": 0, "idx_checks": 0,
             "tlc_states": 0, "rules_fixing": set(), "status": {}, "unfinished": [], "tlc_errors": [], "by_tag": {}, "rejected": 0}
    samples = []
    tagof = dict((it["tid"], it["tag"]) for it in items)
    for path, res in results:
        with open(path) as f:
            D = json.load(f)
        S = F.Strings(path + ".strings")
        runs = dict((r["tid"], r) for r in D["traces"])
        stats["tlc_states"] += res.states
        if not res.ok:
            stats["tlc_errors"].append({"shard": os.path.basename(path), "error": res.error[:600]})
        for tid, run in runs.items():
            stats["traces"] += 1
            stats["status"][run.get("status", "?")] = stats["status"].get(run.get("status", "?"), 0) + 1
            if tid not in res.done:
                stats["unfinished"].append(run.get("file"))
            st = run.get("stats", {})
            stats["analyses"] += st.get("analyze", 0)
            stats["tois"] += st.get("toi", 0)
            stats["idx_checks"] += st.get("idx_checks", 0)
            stats["probes"] += st.get("probes", 0)
            nfix = 0
            for e in run["ev"]:
                if e["e"] == "Fix":
                    nfix += 1
                    stats["windows"] += len(e["win"])
                    stats["rules_fixing"].add(S.text(e["rule"]))
                elif e["e"] == "Rejected":
                    stats["rejected"] += 1
            stats["fix_events"] += nfix
            if nfix:
                stats["traces_nontrivial"] += 1
                tag = tagof.get(tid, "")
                stats["by_tag"][tag] = stats["by_tag"].get(tag, 0) + 1
                if len(samples) < 4:
                    e = next(e for e in run["ev"] if e["e"] == "Fix")
                    samples.append({"input": run["file"], "args": run.get("args"), "events": len(run["ev"]), "fix_events": nfix,
                                    "first_fix": {"rule": S.text(e["rule"]), "class": e["cls"], "windows": len(e["win"]),
                                                  "window0": ({"pre": S.toks(e["win"][0]["pre"], 16), "post": S.toks(e["win"][0]["post"], 16)} if e["win"] else None)}})
            if run.get("status") == "machinery":
                all_findings.append({"property": "B", "clause": "B_Machinery", "rule": "", "input": run.get("file"), "config": "", "event": "", "l": 0, "tid": tid,
                                     "detail": {"tb": run.get("tb", "")[-800:]}})
        # a divergence between the final model and its re-read text is attributed to the rule(s) that left the list
        # non-canonical during the same run (C08_Canonical is reported at the step that introduces it)
        culprits = {}
        for tid, l, clause in res.verdicts:
            if clause == "I_Canonical":
                ev = runs[tid]["ev"][l - 1]
                culprits.setdefault(tid, set()).add(S.text(ev["rule"]) if "rule" in ev else "phase1-normalisation")
        for tid, l, clause in res.verdicts:
            if clause.startswith("I_"):
                continue
            f = F.describe(runs[tid], l, clause, S)
            if clause in ("C08_SameTokens", "C08_SameIndent", "C08_Accepted") and tid in culprits:
                f["rule"] = ",".join(sorted(culprits[tid]))
            # under an option sweep the configuration that matters is the rule's own setting
            st = sweeps.get(f["config"], {}).get(f["rule"])
            if st is not None:
                f["config"] = f["config"] + " " + " ".join("%s=%s" % (k, json.dumps(v)) for k, v in sorted(st.items()) if k != "disable")
            all_findings.append(f)
    stats["rules_fixing"] = sorted(stats["rules_fixing"])
    stats["wall"] = {"design": round(t1 - t0, 1), "trace": round(t2 - t1, 1), "tlc": round(t3 - t2, 1)}
    shutil.rmtree(wd, ignore_errors=True)
    return {"findings": all_findings, "stats": stats, "design": design, "samples": samples, "tier": tier, "items": len(items)}


LEVEL_TEXT = {
    "C01": "model_checking",
}


def check(prop, tier):
    t0 = time.time()
    r = collect(tier)
    stats = r["stats"]
    # machinery failures first: a check that could not do its job must not claim anything
    mach = [f for f in r["findings"] if f["clause"].startswith("B_")]
    design_bad = [d for d in r["design"] if not d["ok"]]
    if stats["tlc_errors"] or stats["unfinished"] or mach or design_bad:
        msg = "tlc_errors=%s unfinished=%s binding=%s design=%s" % (stats["tlc_errors"][:2], stats["unfinished"][:3], [(f["clause"], f["input"], f.get("rule")) for f in mach[:3]], design_bad[:2])
        common.machinery(msg)
    mine = [f for f in r["findings"] if f["property"] == prop]
    if prop == "C19":
        # crashes of the reporting / command-line layer are found by the check-report family
        import chkfam

        cr = chkfam.collect(tier)
        if cr["stats"]["tlc_errors"] or cr["stats"]["machinery"]:
            common.machinery("check/report family: %s %s" % (cr["stats"]["tlc_errors"][:2], cr["stats"]["machinery"][:1]))
        mine += [f for f in cr["findings"] if f["property"] == prop]
        import batchfam

        br = batchfam.collect(tier)
        if br["stats"]["tlc_errors"]:
            common.machinery("batch family: %s" % br["stats"]["tlc_errors"][:2])
        mine += [f for f in br["findings"] if f["property"] == prop]
    known_hits, new = F.split_known(mine, prop)
    rc = common.report(prop, known_hits, new, lambda f: F.write_replay(prop, f))
    design = [d for d in r["design"] if prop in d["props"]]
    cov = {
        "states": sum(d["states"] for d in design) + stats["tlc_states"],
        "transitions": sum(d["states"] for d in design) + stats["tlc_states"],
        "traces_validated_against_impl": stats["traces"],
        "evaluations": stats["traces"],
        "distinct_nontrivial": stats["traces_nontrivial"],
        "rule": "one traced execution of the real apply_rules (--fix) per (input file, configuration); non-trivial = at least one rule applied a non-empty fix window; "
                "every event of every trace is one TLC state of spec/FixTrace.tla in which every named clause is evaluated",
        "samples": r["samples"],
        "design_models": design,
        "trace_states": stats["tlc_states"],
        "fix_events": stats["fix_events"],
        "fix_windows": stats["windows"],
        "rule_analyses_observed": stats["analyses"],
        "tois_checked": stats["tois"],
        "index_checks": stats["idx_checks"],
        "refix_probes": stats["probes"],
        "distinct_rules_that_fixed": len(stats["rules_fixing"]),
        "runs_by_configuration": stats["by_tag"],
        "run_status": stats["status"],
        "known_findings_hit": len(known_hits),
        "from_cache": r.get("cached", False),
        "collection_wall_s": stats["wall"],
    }
    common.write_evidence(prop, tier, "exploration" if prop == "C19" else "model_checking", cov, time.time() - t0, len(new),
                          ["TLC/SANY and the CommunityModules Json/IOUtils modules", "harness/abstraction.py (token -> tuple) and harness/hooks.py (add-only wrappers) report what happened faithfully",
                           "docs/*_rules.rst is the source of truth for what a rule is documented to do", "rule bodies and the classifier are covered on the explored executions only"])
    return rc
