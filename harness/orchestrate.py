# -*- coding: utf-8 -*-
"""Shards work items over worker processes that run harness/runfix.py (the real VSG with hooks on)."""
import json
import os
import shutil
import subprocess
import sys
import time

HARNESS = os.path.dirname(os.path.abspath(__file__))
VERIF = os.path.dirname(HARNESS)
PY = os.environ.get("VSG_VERIF_PYTHON", "/venv/bin/python")
NCPU = int(os.environ.get("VSG_VERIF_JOBS", "16"))


def workdir(name):
    d = os.path.join(os.environ.get("VSG_VERIF_SCRATCH") or VERIF, ".work", name)
    shutil.rmtree(d, ignore_errors=True)
    os.makedirs(d)
    return d


def run_shards(items, wd, shards=NCPU, driver="runfix.py", **jobopts):
    """items: list of dicts with tid; returns list of shard output paths (JSON)"""
    shards = max(1, min(shards, len(items)))
    # round-robin after sorting by size so that shards are balanced
    def size(it):
        try:
            return os.path.getsize(it["path"]) if "path" in it else len(it.get("text", ""))
        except OSError:
            return 0

    order = sorted(items, key=size, reverse=True)
    buckets = [[] for _ in range(shards)]
    for i, it in enumerate(order):
        buckets[i % shards].append(it)
    procs = []
    outs = []
    env = dict(os.environ)
    env["VSG_VERIF_TRACE"] = "1"
    env["PYTHONHASHSEED"] = "0"
    env["PYTHONWARNINGS"] = "ignore"
    for k, b in enumerate(buckets):
        job = dict(jobopts)
        job["items"] = b
        job["out"] = os.path.join(wd, "shard%02d.json" % k)
        job["work"] = os.path.join(wd, "w%02d" % k)
        jp = os.path.join(wd, "job%02d.json" % k)
        with open(jp, "w") as f:
            json.dump(job, f)
        log = open(os.path.join(wd, "log%02d.txt" % k), "w")
        procs.append((subprocess.Popen([PY, os.path.join(HARNESS, driver), jp], env=env, stdout=log, stderr=subprocess.STDOUT, cwd=wd), log, job["out"]))
    for p, log, out in procs:
        rc = p.wait()
        log.close()
        if rc != 0 or not os.path.exists(out):
            raise RuntimeError("driver shard failed rc=%s: see %s" % (rc, log.name))
        outs.append(out)
    return outs
