# -*- coding: utf-8 -*-
"""./check <ID> [--tier quick|thorough] [--replay <path>]

exit 0: the property held on everything explored (KNOWN-FINDING lines for listed genuine defects)
exit 1: `VIOLATION property=<id> replay=<path>` for a violation that known_findings.json does not list
exit 2: MACHINERY - the check could not do its job
"""
import argparse
import json
import os
import sys
import traceback

sys.path.insert(0, os.path.dirname(os.path.abspath(__file__)))
os.environ.setdefault("VSG_VERIF_TRACE", "1")

import common  # noqa: E402


def main():
    ap = argparse.ArgumentParser()
    ap.add_argument("prop")
    ap.add_argument("--tier", default=os.environ.get("VERIF_TIER", "quick"), choices=["quick", "thorough"])
    ap.add_argument("--replay")
    a = ap.parse_args()
    prop = a.prop.upper()
    if a.replay:
        with open(a.replay) as f:
            print(json.dumps(json.load(f), indent=1))
        return 0
    try:
        import fixfam

        if prop == "C04":
            import lexfam

            return lexfam.check(prop, a.tier)
        if prop == "C11":
            import tagfam

            return tagfam.check(prop, a.tier)
        if prop == "C16":
            import wbfam

            return wbfam.check(prop, a.tier)
        if prop == "C05":
            import relfam

            return relfam.check(prop, a.tier)
        if prop == "C15":
            import batchfam

            return batchfam.check(prop, a.tier)
        if prop in ("C12", "C17"):
            import cfgfam

            return cfgfam.check(prop, a.tier)
        if prop in ("C06", "C13", "C14", "C20"):
            import chkfam

            return chkfam.check(prop, a.tier)
        if prop in fixfam.FAMILY:
            return fixfam.check(prop, a.tier)
        common.machinery("no check registered for " + prop)
    except SystemExit:
        raise
    except Exception:
        traceback.print_exc()
        common.machinery("exception in check " + prop)


if __name__ == "__main__":
    sys.exit(main())
