# -*- coding: utf-8 -*-
"""C04 (first sentence): the line tokenizer is lossless.

 design   : TLC over spec/LexerImpl.tla (transcription of vsg/tokens.py) for every string up to a bound over the
            21-class alphabet: every pass is a regrouping (refines spec/Lexer.tla), final-chunk invariants.
 binding  : the real tokens.create, every pass wrapped, run on (i) every string of the same exhaustive space,
            (ii) seeded random strings up to length 60 over the full delimiter alphabet, (iii) every distinct line of
            the corpus; TLC (spec/LexerTrace.tla) checks the contract on all of them and, for strings over the model
            alphabet, equality with the transcription pass by pass (a difference that is still a regrouping is
            reported as model drift, not as a violation).
The rest of C04 (parse/emit round trip, every token classified, a clean file is never rewritten) is decided on the
fix-run traces (fixfam.py, clauses C04_*).
"""
import json
import os
import random
import shutil
import time

import common
import corpus
import findings as F
import orchestrate
import tlc
from tagfam import _run_jobs

DELIMS = list(" \t\"'\\-*/=<>?();:,+&[]|.#_@!%^~`$") + list("aebBoOxXdDuUsSzZ019")


def random_strings(n, seed):
    rnd = random.Random(seed)
    out = []
    for _ in range(n):
        k = rnd.randrange(5, 61)
        out.append("".join(rnd.choice(DELIMS) for _ in range(k)))
    return out


def corpus_lines(limit, seed):
    seen = set()
    for p in corpus.all_vhd():
        try:
            with open(p, encoding="utf-8", errors="replace") as f:
                for ln in f:
                    seen.add(ln.rstrip("\r\n"))
        except OSError:
            pass
    lines = sorted(seen)
    random.Random(seed).shuffle(lines)
    return lines[:limit], len(lines)


FAMILY_FILES = ['harness/lexfam.py', 'harness/lexrun.py', 'harness/tagfam.py', 'spec/Lexer.tla', 'spec/LexerOps.tla', 'spec/LexerImpl.tla', 'spec/LexerTrace.tla', 'spec/LexerTrace.cfg', 'spec/MC_Lexer_quick.cfg', 'spec/MC_Lexer_thorough.cfg', 'spec/Mutant_Lexer_PipeNotDelimiter.cfg']


def collect(tier):
    th = common.tree_hash(FAMILY_FILES)
    key = "%s/lexfam_%s_%d" % (th, tier, common.seed())
    with common.Lock("lexfam_" + tier):
        cd = common.cache_dir(key)
        rp = os.path.join(cd, "result.json")
        if os.path.exists(rp):
            r = json.load(open(rp))
            r["cached"] = True
            return r
        r = _collect(tier)
        json.dump(r, open(rp, "w"))
        r["cached"] = False
        return r


def _collect(tier):
    t0 = time.time()
    seed = common.seed()
    wd = orchestrate.workdir("lexfam_" + tier)
    cfg = "MC_Lexer_quick.cfg" if tier == "quick" else "MC_Lexer_thorough.cfg"
    res = tlc.model_check("LexerImpl", cfg, workers=16, timeout=3000, heap="16g", extra=("-maxSetSize", "100000000"))
    design = [{"module": "LexerImpl", "cfg": cfg, "ok": res.ok, "states": res.states, "distinct": res.distinct, "error": res.error[:400], "wall": round(res.wall, 1)}]
    # vacuity guard of C05_DelimitersSeparate: the tokenizer as it was before '|' became a delimiter must fail it
    mres = tlc.model_check("LexerImpl", "Mutant_Lexer_PipeNotDelimiter.cfg", workers=8, timeout=900)
    design.append({"module": "LexerImpl", "cfg": "Mutant_Lexer_PipeNotDelimiter.cfg", "ok": "Invariant C05_DelimitersSeparate is violated" in mres.out, "states": mres.states, "distinct": mres.distinct,
                   "error": mres.error[:200], "expect": "C05_DelimitersSeparate violated", "wall": round(mres.wall, 1)})
    t1 = time.time()
    maxlen = 4
    nsh = 16
    jobs = [{"out": os.path.join(wd, "ex%02d.json" % k), "mode": "exhaustive", "maxlen": maxlen, "shard": k, "nshards": nsh, "first_id": k * 10000000} for k in range(nsh)]
    nrand = 20000 if tier == "quick" else 200000
    rs = random_strings(nrand, seed)
    nlines = 40000 if tier == "quick" else 10**9
    cl, total_lines = corpus_lines(nlines, seed)
    allstr = rs + cl
    per = (len(allstr) + nsh - 1) // nsh
    for k in range(nsh):
        jobs.append({"out": os.path.join(wd, "st%02d.json" % k), "mode": "strings", "strings": allstr[k * per : (k + 1) * per], "first_id": 500000000 + k * 10000000})
    outs = _run_jobs(jobs, wd, "lexrun.py")
    t2 = time.time()
    results = tlc.validate_shards(outs, module="LexerTrace", parallel=16, heap="3g")
    findings = []
    stats = {"exhaustive_strings": 0, "random_strings": len(rs), "corpus_lines": len(cl), "corpus_lines_total": total_lines, "exact_checked": 0, "tlc_states": 0, "tlc_errors": [], "drift": 0,
             "pass_order": None}
    samples = []
    for path, r in results:
        D = json.load(open(path))
        recs = dict((x["id"], x) for x in D["recs"])
        stats["pass_order"] = D.get("order")
        stats["tlc_states"] += r.states
        if not r.ok or r.states != len(recs):
            stats["tlc_errors"].append({"shard": os.path.basename(path), "error": r.error[:400], "states": r.states, "recs": len(recs)})
        for x in D["recs"]:
            if "text" not in x:
                stats["exhaustive_strings"] += 1
            if x["exact"]:
                stats["exact_checked"] += 1
        if len(samples) < 3 and D["recs"]:
            x = D["recs"][len(D["recs"]) // 2]
            samples.append({"input": x.get("text", x["input"]), "chunks_after_each_pass": x["passes"][1:4] + ["..."] + [x["passes"][-1]]})
        for rid, k, clause in r.verdicts:
            x = recs[rid]
            if clause.startswith("DRIFT"):
                stats["drift"] += 1
                continue
            findings.append({"property": clause.split("_")[0], "clause": clause, "rule": "", "input": "string:" + json.dumps(x.get("text", x["input"])), "config": "lexer",
                             "detail": {"pass": k, "input": x.get("text", x["input"]), "passes": x["passes"], "final": x["final"]}})
    stats["wall"] = {"design": round(t1 - t0, 1), "drivers": round(t2 - t1, 1), "tlc": round(time.time() - t2, 1)}
    shutil.rmtree(wd, ignore_errors=True)
    return {"findings": findings, "stats": stats, "design": design, "samples": samples, "maxlen": maxlen}


def check(prop, tier):
    """C04 = the lexer family (this module) + the C04_* clauses evaluated on the fix-run traces (fixfam)"""
    import fixfam

    t0 = time.time()
    r = collect(tier)
    st = r["stats"]
    bad = [d for d in r["design"] if not d["ok"]]
    if st["tlc_errors"] or bad:
        common.machinery("lexer: tlc_errors=%s design=%s" % (st["tlc_errors"][:2], bad))
    fr = fixfam.collect(tier)
    fst = fr["stats"]
    if fst["tlc_errors"] or fst["unfinished"] or [f for f in fr["findings"] if f["clause"].startswith("B_")]:
        common.machinery("fix-run traces: %s %s" % (fst["tlc_errors"][:2], fst["unfinished"][:3]))
    mine = [f for f in r["findings"] + fr["findings"] if f["property"] == prop]
    # "any run without --fix leaves the file untouched", on multi-file / multi-job invocations (spec/Main.tla)
    import batchfam

    bf, binfo = batchfam.extra_findings(prop, tier)
    mine += bf
    # "a clean file is never rewritten" at the level of system calls (strace-recorded CLI runs of the write-back family)
    import wbfam

    wr = wbfam.collect(tier)
    wst = wr["stats"]
    if wst["tlc_errors"] or wst["unfinished"] or wst["machinery"] or [f for f in wr["findings"] if f["clause"].startswith("B_")]:
        common.machinery("write-back family: %s %s %s" % (wst["tlc_errors"][:2], wst["unfinished"][:3], wst["machinery"][:1]))
    mine += [f for f in wr["findings"] if f["property"] == prop]
    known_hits, new = F.split_known(mine, prop)
    rc = common.report(prop, known_hits, new, lambda f: F.write_replay(prop, f))
    cov = {
        "states": sum(d["states"] for d in r["design"]) + st["tlc_states"] + fst["tlc_states"],
        "transitions": sum(d["states"] for d in r["design"]) + st["tlc_states"] + fst["tlc_states"],
        "traces_validated_against_impl": st["tlc_states"] + fst["traces"],
        "samples": r["samples"],
        "evaluations": st["tlc_states"] + fst["traces"],
        "distinct_nontrivial": st["exhaustive_strings"] + st["random_strings"] + st["corpus_lines"],
        "rule": "lexer: every string of length <= %d over the 23-class alphabet (exhaustive), seeded random strings of length 5..60 over the delimiter alphabet, "
                "distinct corpus lines; each run through the real tokens.create with every pass recorded; non-trivial = all (each is a distinct string). "
                "parse/emit + clean-file clauses: one traced run per (file, configuration) of the fix family" % r["maxlen"],
        "exhaustive": True,
        "design_models": r["design"],
        "exhaustive_strings_replayed": st["exhaustive_strings"],
        "strings_compared_with_transcription": st["exact_checked"],
        "random_strings": st["random_strings"],
        "corpus_lines": st["corpus_lines"],
        "corpus_lines_total": st["corpus_lines_total"],
        "model_drift": st["drift"],
        "pass_order_in_code": st["pass_order"],
        "fix_run_traces": fst["traces"],
        "command_line_model": binfo,
        "strace_recorded_cli_runs": wst["runs"],
        "from_cache": [r.get("cached", False), fr.get("cached", False)],
        "collection_wall_s": st["wall"],
    }
    common.write_evidence(prop, tier, "model_checking", cov, time.time() - t0, len(new),
                          ["spec/LexerOps.tla is a faithful transcription of vsg/tokens.py (checked: it predicts every pass of the real code on the exhaustive space)",
                           "alphabet of 21 character classes covers every branch of the nine passes", "TLC/SANY, Json module"])
    return rc
