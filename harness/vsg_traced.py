# -*- coding: utf-8 -*-
"""Runs the real command line (vsg.__main__.main) with a Task tracer around apply_rules.apply_rules, for C15.

With VSG_VERIF_TRACE unset this is a plain pass-through to main().  With VSG_VERIF_TRACE=1 and VSG_VERIF_TASKDIR=<dir>
every apply_rules call - in the parent or in a forked pool worker - appends one JSON line to <dir>/tasks_<pid>.jsonl:
  pid, per-process sequence number, index, file, digest of all module-level state of vsg.* (+ the shared configuration
  and command-line objects) before and after, digest of the returned result, exit contribution.
Usage: vsg_traced.py <vsg arguments...>
"""
import hashlib
import json
import os
import re
import sys
import types

REPO = os.environ.get("VSG_VERIF_REPO", "/repo")
sys.path.insert(0, REPO)

_RX = type(re.compile("x"))


def norm(v, depth=0, seen=None):
    if seen is None:
        seen = set()
    if isinstance(v, (str, int, float, bool, type(None), bytes)):
        return v
    if id(v) in seen or depth > 6:
        return "<cycle>"
    if isinstance(v, _RX):
        return ("re", v.pattern, v.flags)
    if isinstance(v, (types.FunctionType, types.BuiltinFunctionType, types.MethodType, type, types.ModuleType)):
        return ("callable", getattr(v, "__qualname__", getattr(v, "__name__", "?")))
    seen = seen | {id(v)}
    if isinstance(v, dict):
        return ("dict", tuple(sorted(((str(k), norm(x, depth + 1, seen)) for k, x in v.items()), key=lambda kv: kv[0])))
    if isinstance(v, (list, tuple)):
        return (type(v).__name__, tuple(norm(x, depth + 1, seen) for x in v))
    if isinstance(v, (set, frozenset)):
        return ("set", tuple(sorted((repr(norm(x, depth + 1, seen)) for x in v))))
    d = getattr(v, "__dict__", None)
    if d is not None:
        return ("obj", type(v).__name__, tuple(sorted(((k, norm(x, depth + 1, seen)) for k, x in d.items() if not k.startswith("__")), key=lambda kv: kv[0])))
    return ("other", type(v).__name__)


def leak_digest(extra=()):
    """every non-function global and every non-method class attribute of every loaded vsg.* module, plus `extra` objects"""
    items = []
    for name in sorted(sys.modules):
        if name != "vsg" and not name.startswith("vsg."):
            continue
        m = sys.modules[name]
        if m is None:
            continue
        for k, v in sorted(vars(m).items()):
            if k.startswith("__") or isinstance(v, (types.ModuleType, types.FunctionType, types.BuiltinFunctionType)):
                continue
            if isinstance(v, type):
                if getattr(v, "__module__", "") == name:
                    for ck, cv in sorted(vars(v).items()):
                        if ck.startswith("__") or callable(cv) or isinstance(cv, (staticmethod, classmethod, property)):
                            continue
                        items.append((name, k, ck, norm(cv)))
                continue
            items.append((name, k, norm(v)))
    for e in extra:
        items.append(("extra", norm(e)))
    return hashlib.sha1(repr(items).encode("utf-8", "replace")).hexdigest()[:16], len(items)


def result_digest(res, sFileName, scrub):
    fExit, testCase, dJson, sOut, sErr, bKeep = res

    def s(x):
        x = "" if x is None else str(x)
        for a, b in scrub:
            x = x.replace(a, b)
        return x

    tc = None
    if testCase is not None:
        tc = norm(testCase)
    body = ""
    try:
        with open(sFileName, "rb") as f:
            body = hashlib.sha1(f.read()).hexdigest()
    except OSError:
        pass
    blob = repr((bool(fExit), s(repr(tc)), s(json.dumps(dJson, sort_keys=True, default=str)), s(sOut), s(sErr), bool(bKeep), body))
    return hashlib.sha1(blob.encode("utf-8", "replace")).hexdigest()[:16]


def _body(fn):
    try:
        with open(fn, "rb") as f:
            return hashlib.sha1(f.read()).hexdigest()[:16]
    except OSError:
        return ""


_STATE = {"seq": 0, "orig": None, "taskdir": None, "scrub": []}


def traced(commandLineArguments, oConfig, tIndexFileName):
    """module-level (picklable by reference for multiprocessing.Pool); forked workers inherit _STATE"""
    _STATE["seq"] += 1
    _STATE["ord"] = _STATE.get("ord", 0) + 1
    body0 = _body(tIndexFileName[1])
    # B: the task is entered (per-process order number `ord`); E (in finally): it returned
    with open(os.path.join(_STATE["taskdir"], "tasks_%d.jsonl" % os.getpid()), "a") as f:
        f.write(json.dumps({"t": "B", "pid": os.getpid(), "ord": _STATE["ord"], "seq": _STATE["seq"], "index": tIndexFileName[0]}) + "\n")
    before, n = leak_digest((commandLineArguments, oConfig))
    res = None
    err = ""
    try:
        res = _STATE["orig"](commandLineArguments, oConfig, tIndexFileName)
        return res
    except BaseException as e:  # recorded, re-raised
        err = type(e).__name__
        raise
    finally:
        after, _ = leak_digest((commandLineArguments, oConfig))
        _STATE["ord"] += 1
        rec = {"t": "E", "ord": _STATE["ord"], "stop": bool(res[5]) if res is not None else False, "wrote": _body(tIndexFileName[1]) != body0, "bodyAfter": _body(tIndexFileName[1]),
               "pid": os.getpid(), "seq": _STATE["seq"], "index": tIndexFileName[0], "file": os.path.basename(str(tIndexFileName[1])), "leakBefore": before, "leakAfter": after,
               "result": result_digest(res, tIndexFileName[1], _STATE["scrub"]) if res is not None else "raised:" + err, "status": bool(res[0]) if res is not None else True, "entries": n}
        with open(os.path.join(_STATE["taskdir"], "tasks_%d.jsonl" % os.getpid()), "a") as f:
            f.write(json.dumps(rec) + "\n")


def install(taskdir):
    from vsg import apply_rules, rule_list

    # import every rule module now: a lazy import inside the first task would look like a state change
    rule_list.load_rules()
    _STATE["orig"] = apply_rules.apply_rules
    _STATE["taskdir"] = taskdir
    _STATE["scrub"] = [(os.environ.get("VSG_VERIF_SCRUB", "\0"), "<D>")]
    apply_rules.apply_rules = traced


def main():
    from vsg import __main__ as vmain

    if os.environ.get("VSG_VERIF_TRACE") == "1" and os.environ.get("VSG_VERIF_TASKDIR"):
        install(os.environ["VSG_VERIF_TASKDIR"])
    sys.argv = ["vsg"] + sys.argv[1:]
    vmain.main()


if __name__ == "__main__":
    main()
