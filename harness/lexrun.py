# -*- coding: utf-8 -*-
"""Runs the real tokens.create with every pass wrapped and records the chunk list after each pass.

usage (internal): lexrun.py <job.json>
  job = {"out": path, "mode": "exhaustive"|"strings", "maxlen": n, "shard": k, "nshards": m, "strings": [...]}
"""
import itertools
import json
import os
import sys

sys.path.insert(0, os.path.dirname(os.path.abspath(__file__)))
import vsgenv  # noqa: E402,F401

from vsg import tokens  # noqa: E402

# the model alphabet (spec/LexerOps.tla): class id -> concrete character
ALPHA = {1: " ", 2: "\t", 3: "a", 4: "e", 5: "x", 6: "1", 7: ".", 8: '"', 9: "'", 10: "\\", 11: "-", 12: "*", 13: "/", 14: "=", 15: "<", 16: ">", 17: "?",
         18: "(", 19: ";", 20: ":", 21: "E", 22: "|", 23: ","}
REV = dict((v, k) for k, v in ALPHA.items())

PASSES = ["combine_whitespace", "combine_string_literals", "combine_backslash_characters_into_symbols", "combine_three_character_symbols",
          "combine_two_character_symbols", "combine_characters_into_words", "combine_character_literals", "split_natural_numbers",
          "split_bit_string_literal_integer_and_base_specifier"]


def source_order():
    """the order of the passes as tokens.create calls them now (read from the code, so a re-ordering is followed)"""
    import inspect
    import re

    src = inspect.getsource(tokens.create)
    return re.findall(r"oLine\.([a-z_]+)\(\)", src)


def run_passes(s, enc):
    """-> list of 10 chunk lists (initial + after each pass), final create() output; chunks encoded by enc"""
    o = tokens.New(s)
    out = [[enc(c) for c in o.lChars]]
    for name in source_order():
        getattr(o, name)()
        out.append([enc(c) for c in o.lChars])
    raw = tokens.create(s)
    final = [enc(c) for c in raw]
    return out, final, raw


# the delimiters of the language (IEEE 1076-2008, 15.3), not read from VSG's tables; '.' is left out (VSG keeps selected names
# in one word on purpose), so are the characters VHDL gives no lexical meaning outside literals
_DELIMS = set("&'()*+,-/:;<=>|[]?")
_COMPOUND = {"=>", "**", ":=", "/=", ">=", "<=", "<>", "??", "?=", "?/=", "?<", "?<=", "?>", "?>=", "<<", ">>", "--", "/*", "*/"}


def char_classes(chunks):
    """per chunk the class of every character (1 blank, 2 VHDL delimiter, 3 quote / backslash, 0 other) and whether the chunk
    is a compound delimiter of the language"""
    fcls, fsym = [], []
    for c in chunks:
        fcls.append([1 if ch.isspace() else (3 if ch in "\"'\\" else (2 if ch in _DELIMS else 0)) for ch in c])
        fsym.append(c in _COMPOUND)
    return fcls, fsym


def enc_alpha(c):
    return [REV[ch] for ch in c]


def enc_ord(c):
    return [ord(ch) % 1000000 for ch in c]


def main():
    job = json.load(open(sys.argv[1]))
    recs = []
    rid = job.get("first_id", 0)
    order = source_order()
    exact_ok = order == PASSES
    if job["mode"] == "exhaustive":
        keys = sorted(ALPHA)
        idx = 0
        for n in range(0, job["maxlen"] + 1):
            for tup in itertools.product(keys, repeat=n):
                idx += 1
                if idx % job["nshards"] != job["shard"]:
                    continue
                s = "".join(ALPHA[k] for k in tup)
                passes, final, raw = run_passes(s, enc_alpha)
                rid += 1
                fcls, fsym = char_classes(raw)
                recs.append({"id": rid, "input": list(tup), "passes": passes, "final": final, "exact": exact_ok and len(passes) == 10, "fcls": fcls, "fsym": fsym})
    else:
        for s in job["strings"]:
            inalpha = all(ch in REV for ch in s)
            enc = enc_alpha if inalpha else enc_ord
            passes, final, raw = run_passes(s, enc)
            rid += 1
            fcls, fsym = char_classes(raw)
            recs.append({"id": rid, "input": enc(s), "passes": passes, "final": final, "exact": inalpha and exact_ok and len(passes) == 10, "text": s, "fcls": fcls, "fsym": fsym})
    # the trace spec indexes passes[1..10]; pad if the code has a different number of passes (then only the contract is checked on what exists)
    for r in recs:
        while len(r["passes"]) < 10:
            r["passes"].append(r["passes"][-1])
        r["passes"] = r["passes"][:9] + [r["passes"][-1]] if len(r["passes"]) > 10 else r["passes"]
    with open(job["out"], "w") as f:
        json.dump({"recs": recs, "order": order}, f, separators=(",", ":"))


if __name__ == "__main__":
    main()
