# -*- coding: utf-8 -*-
"""The input corpus, re-enumerated from /repo's working tree on every run."""
import glob
import hashlib
import os
import random

from vsgenv import REPO


def all_vhd(repo=REPO):
    l = sorted(glob.glob(os.path.join(repo, "tests", "**", "*.vhd"), recursive=True))
    return [p for p in l if os.path.isfile(p)]


def sha(path):
    with open(path, "rb") as f:
        return hashlib.sha1(f.read()).hexdigest()[:12]


def rel(path, repo=REPO):
    return os.path.relpath(path, repo)


def stratified_sample(paths, n, seed, always=("tests/styles/code_examples",)):
    """seeded sample in which every tests/<dir> is represented before any directory gets a second file;
    files under `always` are always in."""
    rnd = random.Random(seed)
    keep = [p for p in paths if any(a in p for a in always)]
    rest = [p for p in paths if p not in set(keep)]
    bydir = {}
    for p in rest:
        bydir.setdefault(os.path.dirname(p), []).append(p)
    for d in bydir:
        rnd.shuffle(bydir[d])
    dirs = sorted(bydir)
    rnd.shuffle(dirs)
    out = list(keep)
    k = 0
    while len(out) < n and any(bydir.values()):
        for d in dirs:
            if bydir[d]:
                out.append(bydir[d].pop())
                if len(out) >= n:
                    break
        k += 1
    return out[: max(n, len(keep))]
