# -*- coding: utf-8 -*-
"""A small grammar-based generator of VHDL design files: entity / architecture / package skeletons with processes, if / case /
loops, instantiations, generates, declarations, in deliberately varied (and often sloppy) layout, so that constructs no
fixture combines meet in one file.  The set of designs is FIXED (its own seed, independent of VERIF_SEED): it is a second
corpus, not a random test - what a check finds on it can be listed.  Only designs VSG accepts are used (the caller filters).
"""
import random

KW = {"upper": str.upper, "lower": str.lower}


class Gen:
    def __init__(self, seed, deep=False):
        self.deep = deep          # the "deep nesting" designs: chains of labelled statements, end names often left out
        self.r = random.Random(seed)
        self.case = self.r.choice(["upper", "lower", "lower"])
        self.ind = self.r.choice(["  ", "    ", " "])
        self.n = 0

    def k(self, w):
        return KW[self.case](w)

    def name(self, p):
        self.n += 1
        return self.r.choice([p, p.upper(), p.capitalize()]) + "_%d" % self.n

    def sp(self):
        return self.r.choice([" ", " ", "  ", "   "])

    def cmt(self):
        return self.r.choice(["", "", "", " -- note", "  --note", " --! doc"])

    def expr(self, depth=0):
        r = self.r
        a = r.choice(["a", "b", "sel", "cnt", "'1'", "'0'", "x\"0F\"", "\"0101\"", "(others => '0')", "to_integer(unsigned(cnt))", "cnt + 1"])
        if depth < 2 and r.random() < 0.5:
            op = r.choice(["and", "or", "xor", "&", "+", "-", "=", "/=", "<", ">="])
            return "%s%s%s%s%s" % (a, self.sp(), self.k(op) if op.isalpha() else op, self.sp(), self.expr(depth + 1))
        if depth < 2 and r.random() < 0.2:
            return "(" + self.expr(depth + 1) + ")"
        return a

    def cond(self):
        c = "%s = %s" % (self.r.choice(["a", "b", "sel", "rst"]), self.r.choice(["'1'", "'0'"]))
        if self.r.random() < 0.4:
            c += " %s %s = '1'" % (self.k(self.r.choice(["and", "or"])), self.r.choice(["en", "b"]))
        return c if self.r.random() < 0.5 else "(" + c + ")"

    def seq(self, lvl, depth=0):
        r = self.r
        i = self.ind * lvl
        out = []
        for _ in range(r.randrange(1, 4)):
            kind = r.choice(["assign", "assign", "if", "case", "loop", "var", "null", "call", "wait", "assert"] + (["nestloop"] if self.deep and depth == 0 else [])) if depth < 2 else "assign"
            if kind == "nestloop":
                out += self.nest_loops(lvl, r.randrange(3, 5))
                continue
            if kind == "assign":
                out.append("%s%s%s<=%s%s;%s" % (i, r.choice(["q", "y", "cnt"]), self.sp(), self.sp(), self.expr(), self.cmt()))
            elif kind == "var":
                out.append("%sv%s:=%s%s;" % (i, self.sp(), self.sp(), self.expr()))
            elif kind == "null":
                out.append("%s%s;" % (i, self.k("null")))
            elif kind == "call":
                out.append("%sdo_it(%s,%s%s);" % (i, self.expr(2), self.sp(), self.expr(2)))
            elif kind == "wait":
                out.append("%s%s %s clk = '1';" % (i, self.k("wait"), self.k("until")))
            elif kind == "assert":
                out.append("%s%s %s %s \"msg\" %s %s;" % (i, self.k("assert"), self.cond(), self.k("report"), self.k("severity"), self.k("warning")))
            elif kind == "if":
                out.append("%s%s %s %s%s" % (i, self.k("if"), self.cond(), self.k("then"), self.cmt()))
                out += self.seq(lvl + 1, depth + 1)
                if r.random() < 0.5:
                    out.append("%s%s %s %s" % (i, self.k("elsif"), self.cond(), self.k("then")))
                    out += self.seq(lvl + 1, depth + 1)
                if r.random() < 0.5:
                    out.append("%s%s" % (i, self.k("else")))
                    out += self.seq(lvl + 1, depth + 1)
                out.append("%s%s %s;" % (i, self.k("end"), self.k("if")))
            elif kind == "case":
                out.append("%s%s sel %s" % (i, self.k("case"), self.k("is")))
                for ch in ["\"00\"", "\"01\" | \"10\""]:
                    out.append("%s%s%s %s =>%s" % (i, self.ind, self.k("when"), ch, self.cmt()))
                    out += self.seq(lvl + 2, depth + 1)
                out.append("%s%s%s %s =>" % (i, self.ind, self.k("when"), self.k("others")))
                out.append("%s%s%s%s;" % (i, self.ind, self.ind, self.k("null")))
                out.append("%s%s %s;" % (i, self.k("end"), self.k("case")))
            elif kind == "loop":
                lab = "" if r.random() < 0.6 else self.name("lp") + " : "
                out.append("%s%s%s i %s 0 %s 7 %s" % (i, lab, self.k("for"), self.k("in"), self.k("to"), self.k("loop")))
                out += self.seq(lvl + 1, depth + 1)
                out.append("%s%s %s;" % (i, self.k("end"), self.k("loop")))
            if r.random() < 0.15:
                out.append("")
        return out

    def nest_blocks(self, lvl, n):
        """n labelled blocks inside each other; the name after 'end block' is left out at random"""
        r = self.r
        i = self.ind * lvl
        lab = self.name("blk")
        out = ["%s%s%s:%s%s%s" % (i, lab, self.sp(), self.sp(), self.k("block"), "" if r.random() < 0.6 else " " + self.k("is"))]
        out.append("%s%s%s s_%d : std_logic;" % (i, self.ind, self.k("signal"), self.n))
        out.append("%s%s" % (i, self.k("begin")))
        out.append("%s%sy%s<=%s%s;" % (i, self.ind, self.sp(), self.sp(), self.expr()))
        if n > 1:
            out += self.nest_blocks(lvl + 1, n - 1)
            if r.random() < 0.5:
                out += self.nest_blocks(lvl + 1, max(1, n - 2))
        else:
            out += self.process(lvl + 1)
        out.append("%s%s %s%s;" % (i, self.k("end"), self.k("block"), "" if r.random() < 0.6 else " " + lab))
        return out

    def nest_loops(self, lvl, n):
        """n labelled loops inside each other (for / while / plain), 'end loop' mostly without the name"""
        r = self.r
        i = self.ind * lvl
        lab = self.name("lp")
        head = r.choice(["%s i%d %s 0 %s 3 %s" % (self.k("for"), n, self.k("in"), self.k("to"), self.k("loop")), "%s cnt < 3 %s" % (self.k("while"), self.k("loop")), self.k("loop")])
        out = ["%s%s%s:%s%s" % (i, lab, self.sp(), self.sp(), head)]
        out.append("%s%sv%s:=%sv + 1;" % (i, self.ind, self.sp(), self.sp()))
        if n > 1:
            out += self.nest_loops(lvl + 1, n - 1)
        out.append("%s%s%s %s %s;" % (i, self.ind, self.k("exit"), lab if r.random() < 0.5 else "", "%s v > 2" % self.k("when")))
        out.append("%s%s %s%s;" % (i, self.k("end"), self.k("loop"), "" if r.random() < 0.6 else " " + lab))
        return out

    def process(self, lvl):
        r = self.r
        i = self.ind * lvl
        lab = "" if r.random() < 0.4 else self.name("proc") + self.sp() + ":" + self.sp()
        sens = "" if r.random() < 0.2 else "(" + r.choice(["clk", "clk, rst", "all", "a,b ,sel"]) + ")"
        out = ["%s%s%s%s%s%s" % (i, lab, self.k("process"), self.sp() if sens else "", sens, "" if r.random() < 0.5 else " " + self.k("is"))]
        if r.random() < 0.6:
            out.append("%s%s%s v : %s := 0;" % (i, self.ind, self.k("variable"), self.k("integer")))
        out.append("%s%s" % (i, self.k("begin")))
        out += self.seq(lvl + 1)
        out.append("%s%s %s%s;" % (i, self.k("end"), self.k("process"), "" if r.random() < 0.5 else " " + lab.split(":")[0].strip()))
        return out

    def conc(self, lvl, depth=0):
        r = self.r
        i = self.ind * lvl
        out = []
        for _ in range(r.randrange(2, 6)):
            kind = r.choice(["process", "process", "assign", "cond", "sel", "inst", "gen", "block", "assert"] + (["nest", "nest"] if self.deep and depth == 0 else [])) if depth < 2 else "assign"
            if kind == "nest":
                out += self.nest_blocks(lvl, r.randrange(3, 5))
                continue
            if kind == "process":
                out += self.process(lvl)
            elif kind == "assign":
                out.append("%sy%s<=%s%s;%s" % (i, self.sp(), self.sp(), self.expr(), self.cmt()))
            elif kind == "cond":
                out.append("%sq <= a %s %s %s" % (i, self.k("when"), self.cond(), self.k("else")))
                out.append("%s%sb %s %s %s" % (i, self.ind * 2, self.k("when"), self.cond(), self.k("else")))
                out.append("%s%s'0';" % (i, self.ind * 2))
            elif kind == "sel":
                out.append("%s%s sel %s" % (i, self.k("with"), self.k("select")))
                out.append("%s%sq <= a %s \"00\"," % (i, self.ind, self.k("when")))
                out.append("%s%s     b %s %s;" % (i, self.ind, self.k("when"), self.k("others")))
            elif kind == "inst":
                lab = self.name("u")
                comp = "" if r.random() < 0.5 else self.k("component") + " "
                out.append("%s%s : %ssub_block" % (i, lab, comp))
                if r.random() < 0.5:
                    out.append("%s%s%s %s (WIDTH => 8)" % (i, self.ind, self.k("generic"), self.k("map")))
                out.append("%s%s%s %s (" % (i, self.ind, self.k("port"), self.k("map")))
                out.append("%s%s%sclk => clk,%s" % (i, self.ind, self.ind, self.cmt()))
                out.append("%s%s%sd   => a, q=>%s" % (i, self.ind, self.ind, r.choice(["q", "open", "y"])))
                out.append("%s%s);" % (i, self.ind))
            elif kind == "gen":
                lab = self.name("gen")
                if r.random() < 0.5:
                    out.append("%s%s : %s i %s 0 %s 3 %s" % (i, lab, self.k("for"), self.k("in"), self.k("to"), self.k("generate")))
                else:
                    out.append("%s%s : %s WIDTH > 4 %s" % (i, lab, self.k("if"), self.k("generate")))
                out += self.conc(lvl + 1, depth + 1)
                out.append("%s%s %s%s;" % (i, self.k("end"), self.k("generate"), "" if r.random() < 0.5 else " " + lab))
            elif kind == "block":
                lab = self.name("blk")
                out.append("%s%s : %s" % (i, lab, self.k("block")))
                out.append("%s%s%s s_loc : %s;" % (i, self.ind, self.k("signal"), "std_logic"))
                out.append("%s%s" % (i, self.k("begin")))
                out += self.conc(lvl + 1, depth + 1)
                out.append("%s%s %s %s;" % (i, self.k("end"), self.k("block"), lab))
            elif kind == "assert":
                out.append("%s%s WIDTH > 0 %s \"bad\" %s %s;" % (i, self.k("assert"), self.k("report"), self.k("severity"), self.k("failure")))
            if r.random() < 0.3:
                out.append(r.choice(["", "", i + "-- section", i + "--------"]))
        return out

    def design(self):
        r = self.r
        e = self.name("ent")
        a = r.choice(["rtl", "RTL", "behav"])
        out = []
        if r.random() < 0.8:
            out += ["%s ieee;" % self.k("library"), "%s ieee.std_logic_1164.%s;" % (self.k("use"), self.k("all"))]
            if r.random() < 0.5:
                out.append("  %s ieee.numeric_std.all;" % self.k("use"))
        out.append("" if r.random() < 0.7 else "-- the entity")
        out.append("%s %s %s" % (self.k("entity"), e, self.k("is")))
        if r.random() < 0.6:
            out += ["%s%s (" % (self.ind, self.k("generic")), "%s%sWIDTH : %s := 8;%s" % (self.ind, self.ind, self.k("integer"), self.cmt()), "%s%sDEPTH:natural:=4" % (self.ind, self.ind), "%s);" % self.ind]
        out.append("%s%s (" % (self.ind, self.k("port")))
        ports = ["clk , rst : %s std_logic" % self.k("in"), "a,b : %s std_logic" % self.k("in"), "sel : %s  std_logic_vector(1 %s 0)" % (self.k("in"), self.k("downto")),
                 "en:%s std_logic := '0'" % self.k("in"), "q : %s std_logic" % self.k("out"), "y : %s std_logic_vector(WIDTH-1 downto 0)" % self.k("out"), "cnt : %s unsigned(7 downto 0)" % self.k("buffer")]
        r.shuffle(ports)
        ports = ports[: r.randrange(3, 8)]
        for j, p in enumerate(ports):
            out.append("%s%s%s%s%s" % (self.ind, self.ind if r.random() < 0.8 else "", p, ";" if j < len(ports) - 1 else "", self.cmt()))
        out.append("%s);" % self.ind)
        out.append("%s%s%s;" % (self.k("end"), r.choice(["", " " + self.k("entity")]), r.choice(["", " " + e])))
        out.append("")
        out.append("%s %s %s %s %s" % (self.k("architecture"), a, self.k("of"), e, self.k("is")))
        decls = ["%s s1, s2 : std_logic;" % self.k("signal"), "%s C_MAX : %s := 16#1F#;" % (self.k("constant"), self.k("integer")), "%s t_state %s (IDLE, RUN ,DONE);" % (self.k("type"), self.k("is")),
                 "%s state : t_state;" % self.k("signal"), "%s sub_block %s %s(clk,d:%s std_logic;q:%s std_logic); %s %s;" % (self.k("component"), r.choice(["", self.k("is")]), self.k("port"), self.k("in"), self.k("out"), self.k("end"), self.k("component")),
                 "%s ROM : std_logic_vector(0 to 3) := (0 => '1', %s => '0');" % (self.k("constant"), self.k("others")), "%s %s f(x : integer) %s integer;" % ("", self.k("function"), self.k("return"))]
        r.shuffle(decls)
        for d in decls[: r.randrange(2, 7)]:
            out.append(self.ind + d.strip() + self.cmt())
        out.append(self.k("begin"))
        out += self.conc(1)
        out.append("%s%s%s;" % (self.k("end"), r.choice(["", " " + self.k("architecture")]), r.choice(["", " " + a])))
        if r.random() < 0.3:
            out += ["", "%s pkg_%d %s" % (self.k("package"), self.n, self.k("is")), "%s%s K : integer := 3;" % (self.ind, self.k("constant")), "%s%s pkg_%d;" % (self.k("end"), " " + self.k("package") if r.random() < 0.5 else "", self.n)]
        return "\n".join(out) + "\n"


def designs(n, base_seed=777):
    """the fixed second corpus: n generated designs, deterministic; every fifth one more is a "deep nesting" design (chains of
    3-4 labelled blocks / loops inside each other with the optional end names mostly left out)"""
    out = [("generated/design_%03d.vhd" % k, Gen(base_seed + k).design()) for k in range(n)]
    out += [("generated/nested_%03d.vhd" % k, Gen(5000 + base_seed + k, deep=True).design()) for k in range(max(4, n // 5))]
    return out
