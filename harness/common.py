# -*- coding: utf-8 -*-
"""Shared plumbing of the checks: tree hash + cache, evidence files, verdict output."""
import fcntl
import hashlib
import json
import os
import shutil
import sys
import time

HARNESS = os.path.dirname(os.path.abspath(__file__))
VERIF = os.path.dirname(HARNESS)
REPO = os.environ.get("VSG_VERIF_REPO", "/repo")
# VSG_VERIF_SCRATCH (self tests only): scratch space, cache, evidence and replay files of a run against a scratch copy of the
# repository (VSG_VERIF_REPO) go there, so that such runs neither disturb each other nor the files of /verif
BASE = os.environ.get("VSG_VERIF_SCRATCH") or VERIF
CACHE = os.path.join(BASE, ".cache")
WORK = os.path.join(BASE, ".work")
EVIDENCE = os.path.join(BASE, "evidence")
REPLAY = os.path.join(BASE, "replay")


def seed():
    try:
        return int(os.environ.get("VERIF_SEED", "20261004"))
    except ValueError:
        return 20261004


_COMMON_FILES = ["harness/common.py", "harness/tlc.py", "harness/orchestrate.py", "harness/corpus.py", "harness/findings.py", "harness/vsgenv.py", "harness/abstraction.py",
                 "harness/hooks.py", "harness/ruledocs.py", "spec/Tokens.tla"]


def tree_hash(family_files=None):
    """hash of everything a check's outcome can depend on: VSG's code, docs, fixtures, and the part of the framework the
    family uses (family_files: paths relative to /verif; None = the whole harness and spec directories)"""
    h = hashlib.sha1()
    roots = [(REPO, "vsg"), (REPO, "docs"), (REPO, "tests"), (REPO, "bin")]
    if family_files is None:
        roots += [(VERIF, "harness"), (VERIF, "spec")]
    else:
        for rel in sorted(set(_COMMON_FILES + list(family_files))):
            fp = os.path.join(VERIF, rel)
            h.update(rel.encode())
            try:
                with open(fp, "rb") as f:
                    h.update(f.read())
            except OSError:
                h.update(b"<missing>")
    for base, sub in roots:
        top = os.path.join(base, sub)
        for dirpath, dirnames, filenames in os.walk(top):
            dirnames[:] = sorted(d for d in dirnames if d != "__pycache__")
            for fn in sorted(filenames):
                if fn.endswith((".pyc", ".pyo")):
                    continue
                p = os.path.join(dirpath, fn)
                try:
                    st = os.stat(p)
                except OSError:
                    continue
                h.update(p.encode())
                if fn.endswith((".py", ".tla", ".cfg", ".yaml", ".rst", ".json")) or st.st_size < 4096:
                    try:
                        with open(p, "rb") as f:
                            h.update(f.read())
                    except OSError:
                        pass
                else:
                    h.update(("%d:%d" % (st.st_size, st.st_mtime_ns)).encode())
    kf = os.path.join(VERIF, "known_findings.json")
    return h.hexdigest()[:16]


class Lock:
    def __init__(self, name):
        os.makedirs(CACHE, exist_ok=True)
        self.path = os.path.join(CACHE, name + ".lock")

    def __enter__(self):
        self.f = open(self.path, "w")
        fcntl.flock(self.f, fcntl.LOCK_EX)
        return self

    def __exit__(self, *a):
        fcntl.flock(self.f, fcntl.LOCK_UN)
        self.f.close()


def cache_dir(key):
    d = os.path.join(CACHE, key)
    os.makedirs(d, exist_ok=True)
    return d


def prune_cache(keep_prefix, max_entries=6):
    """old cache entries (other tree hashes) are removed: disk is limited"""
    if not os.path.isdir(CACHE):
        return
    ents = [e for e in os.listdir(CACHE) if os.path.isdir(os.path.join(CACHE, e))]
    ents.sort(key=lambda e: os.path.getmtime(os.path.join(CACHE, e)))
    others = [e for e in ents if not e.startswith(keep_prefix)]
    while len(others) > max_entries:
        shutil.rmtree(os.path.join(CACHE, others.pop(0)), ignore_errors=True)


def write_evidence(prop, tier, level, coverage, wall, violations, assumptions):
    os.makedirs(EVIDENCE, exist_ok=True)
    ev = {
        "property_id": prop,
        "tier": tier,
        "seed": seed(),
        "level": level,
        "coverage": coverage,
        "assumptions": assumptions,
        "wall_s": round(wall, 2),
        "violations": violations,
    }
    with open(os.path.join(EVIDENCE, prop + ".json"), "w") as f:
        json.dump(ev, f, indent=1, default=str)
    return ev


def report(prop, known_hits, new, replay_of):
    """prints KNOWN-FINDING / VIOLATION lines; returns exit code"""
    for entry, fs in known_hits:
        print("KNOWN-FINDING: property=%s %s (%d occurrence(s) this run)" % (prop, entry.get("what", entry.get("clause", "")), len(fs)))
    seen = set()
    for f in new:
        p = replay_of(f)
        if p in seen:
            continue
        seen.add(p)
        print("VIOLATION property=%s replay=%s" % (prop, p))
        print("   clause=%s rule=%s input=%s config=%s" % (f.get("clause"), f.get("rule"), f.get("input"), f.get("config")))
    sys.stdout.flush()
    return 1 if new else 0


def machinery(msg):
    print("MACHINERY: " + msg)
    sys.stdout.flush()
    sys.exit(2)
