# -*- coding: utf-8 -*-
"""C05 driver: classify a file and a meaning-preserving re-layout of it with the real parser; record roles of code tokens.
usage (internal): relrun.py <job.json>   job = {"out", "items": [{"path", "name", "recipes": [...]}]}"""
import json
import os
import sys

sys.path.insert(0, os.path.dirname(os.path.abspath(__file__)))
import vsgenv  # noqa: E402,F401
import variants  # noqa: E402
from abstraction import CODE, Interner, Uids, abstract_list  # noqa: E402

from vsg import vhdlFile  # noqa: E402

INT = Interner()


def classify(text):
    lines = text.split("\n")
    if lines and lines[-1] == "":
        lines = lines[:-1]
    f = vhdlFile.vhdlFile([l.rstrip("\r") for l in lines])
    toks = abstract_list(f.lAllObjects, INT, Uids())
    code = [t for t in toks if t[1] == CODE]
    return [t[5] for t in code], [t[3] for t in code]


def main():
    job = json.load(open(sys.argv[1]))
    recs = []
    nid = job.get("first_id", 0)
    for item in job["items"]:
        try:
            if "text" in item:
                text = item["text"]
            else:
                with open(item["path"], encoding="utf-8", newline="") as f:
                    text = f.read()
            roles0, code0 = classify(text)
        except Exception:
            continue  # the base file itself is not accepted (or not readable as utf-8): nothing to compare
        for rname in item["recipes"]:
            v = variants.apply(rname, text)
            if v is None:
                continue
            nid += 1
            rec = {"id": nid, "file": item["name"], "recipe": rname, "accepted": True, "roles0": roles0, "code0": code0, "roles1": [], "code1": [], "msg": ""}
            try:
                rec["roles1"], rec["code1"] = classify(v)
            except Exception as e:
                rec["accepted"] = False
                rec["msg"] = (type(e).__name__ + ": " + str(getattr(e, "message", e)))[:300]
            recs.append(rec)
    with open(job["out"], "w") as f:
        json.dump({"recs": recs}, f, separators=(",", ":"))
    with open(job["out"] + ".strings", "w") as f:
        json.dump(INT.rev, f)


if __name__ == "__main__":
    main()
