# -*- coding: utf-8 -*-
"""Running TLC: design-level model checking and trace validation shards; parsing verdict lines."""
import os
import re
import shutil
import subprocess
import time

HARNESS = os.path.dirname(os.path.abspath(__file__))
VERIF = os.path.dirname(HARNESS)
SPEC = os.path.join(VERIF, "spec")
JAR = "/opt/veriftools/tla/tla2tools.jar"
CM = "/opt/veriftools/tla/CommunityModules-deps.jar"


def _classpath():
    cp = [JAR]
    for cand in (CM, "/opt/veriftools/tla/CommunityModules.jar"):
        if os.path.exists(cand):
            cp.append(cand)
    return ":".join(cp)


def tlc_cmd(module, cfg, workers, metadir, extra=(), heap="3g", deque=False):
    # (-UseGCOverheadLimit: on a loaded machine the collector's share of the time says nothing about the heap being too small)
    java = ["java", "-XX:+UseParallelGC", "-XX:-UseGCOverheadLimit", "-Xmx" + heap, "-Xss64m"]
    if deque:
        java.append("-Dtlc2.tool.queue.IStateQueue=StateDeque")
    java += ["-cp", _classpath(), "tlc2.TLC"]
    return java + ["-workers", str(workers), "-metadir", metadir, "-noGenerateSpecTE", "-config", cfg] + list(extra) + [module]


_V = re.compile(r'^<<"V", (\d+), (\d+), "([A-Za-z0-9_]+)">>')
_DONE = re.compile(r'^<<"DONE", (\d+), (\d+)>>')
_STATES = re.compile(r"^(\d+) states generated, (\d+) distinct states found")


class TlcResult:
    def __init__(self):
        self.verdicts = []  # (tid, l, clause)
        self.done = {}  # tid -> l
        self.states = 0
        self.distinct = 0
        self.ok = False
        self.rc = None
        self.out = ""
        self.wall = 0.0
        self.error = ""


def parse_output(text, res):
    for line in text.split("\n"):
        m = _V.match(line)
        if m:
            res.verdicts.append((int(m.group(1)), int(m.group(2)), m.group(3)))
            continue
        m = _DONE.match(line)
        if m:
            res.done[int(m.group(1))] = int(m.group(2))
            continue
        m = _STATES.match(line)
        if m:
            res.states, res.distinct = int(m.group(1)), int(m.group(2))
    res.ok = "Model checking completed. No error has been found." in text
    if not res.ok:
        errs = [l for l in text.split("\n") if l.startswith("Error:") or "Exception" in l]
        res.error = "\n".join(errs[:8]) or ("TLC ended without a verdict (killed?): ..." + text[-200:])
    return res


def validate_trace_file(trace_json, module="FixTrace", cfg=None, metadir=None, timeout=3600, heap="3g"):
    """one `tlc -workers 1` over one shard of traces"""
    cfg = cfg or os.path.join(SPEC, module + ".cfg")
    metadir = metadir or (trace_json + ".meta")
    env = dict(os.environ)
    env["TRACE_FILE"] = trace_json
    cmd = tlc_cmd(os.path.join(SPEC, module + ".tla"), cfg, 1, metadir, heap=heap)
    t0 = time.time()
    p = subprocess.Popen(cmd, cwd=SPEC, env=env, stdout=subprocess.PIPE, stderr=subprocess.STDOUT, text=True)
    return p, t0, metadir


def finish(p, t0, metadir, timeout=3600):
    res = TlcResult()
    try:
        out, _ = p.communicate(timeout=timeout)
    except subprocess.TimeoutExpired:
        p.kill()
        out, _ = p.communicate()
        res.error = "timeout"
    res.rc = p.returncode
    res.out = out
    res.wall = time.time() - t0
    parse_output(out, res)
    shutil.rmtree(metadir, ignore_errors=True)
    return res


def validate_shards(paths, module="FixTrace", heap="4g", timeout=3600, parallel=16):
    """validates shard files in parallel (one JVM each); returns list of (path, TlcResult)"""
    results = []
    pending = list(paths)
    running = []
    while pending or running:
        while pending and len(running) < parallel:
            path = pending.pop(0)
            running.append((path,) + validate_trace_file(path, module=module, heap=heap))
        path, p, t0, md = running.pop(0)
        results.append((path, finish(p, t0, md, timeout)))
    return results


def model_check(module, cfg, workers=16, timeout=3600, extra=(), heap="8g", name=None):
    """design-level run: returns TlcResult (ok = no error found)"""
    md = os.path.join(os.environ.get("VSG_VERIF_SCRATCH") or VERIF, ".work", "meta_" + (name or (module + "_" + os.path.basename(cfg))))
    shutil.rmtree(md, ignore_errors=True)
    cmd = tlc_cmd(os.path.join(SPEC, module + ".tla"), os.path.join(SPEC, cfg), workers, md, extra=extra, heap=heap)
    t0 = time.time()
    p = subprocess.Popen(cmd, cwd=SPEC, stdout=subprocess.PIPE, stderr=subprocess.STDOUT, text=True)
    return finish(p, t0, md, timeout)
