# -*- coding: utf-8 -*-
"""C12 (configuration precedence) and C17 (the emitted configuration reproduces the run).

design  : TLC over spec/Config.tla - every stack of two sources x sections x {absent, a, b, a+b}: the implementation's
          application order realises the documented precedence when no section is mentioned twice (MC_Config), the
          attribute-wise merge does so always (MC_Config_AttributeWise), the whole-entry replacement does not
          (Known_Config_WholeEntry - the known finding), applying only the most specific group does not (mutant).
binding : stacks instantiated as real JSON files for ALL rules at once and loaded by the real config.New +
          configure_rules; what every rule ends up with (and acts on) is compared by TLC (spec/ConfigTrace.tla) with the
          reference and with the transcription; unknown / deprecated rule names; -oc / -rc round trips; layered vs flat
          configurations behave alike."""
import json
import os
import random
import shutil
import time

import common
import corpus
import findings as F
import orchestrate
import tlc
from tagfam import _run_jobs

FAMILY_FILES = ["harness/cfgfam.py", "harness/cfgrun.py", "harness/chkrun.py", "harness/runfix.py", "harness/configs.py", "harness/tagfam.py", "spec/ConfigOps.tla", "spec/Config.tla",
                "spec/ConfigTrace.tla", "spec/ConfigTrace.cfg", "spec/MC_Config.cfg", "spec/MC_Config_AttributeWise.cfg", "spec/Known_Config_WholeEntry.cfg", "spec/Mutant_Config_MostSpecificGroup.cfg"]
SECS = ["global", "gpar", "gsub", "rule", "fl_global", "fl_gpar", "fl_gsub", "fl_rule", "fr_global", "fr_gpar", "fr_gsub", "fr_rule"]
MAIN = SECS[:4]


def collect(tier):
    th = common.tree_hash(FAMILY_FILES)
    key = "%s/cfgfam_%s_%d" % (th, tier, common.seed())
    with common.Lock("cfgfam_" + tier):
        cd = common.cache_dir(key)
        rp = os.path.join(cd, "result.json")
        if os.path.exists(rp):
            r = json.load(open(rp))
            r["cached"] = True
            return r
        r = _collect(tier)
        json.dump(r, open(rp, "w"))
        r["cached"] = False
        return r


def gen_stacks(n, seed):
    rnd = random.Random(seed)
    out = []
    k = 0

    def add(name, sources, style=None):
        nonlocal k
        k += 1
        out.append({"name": "%s#%d" % (name, k), "sources": sources, "style": style})

    # designed: each section alone, each pair of levels, with two sources
    for s in SECS:
        add("single:" + s, [{}, {s: 3}])
    for i, s1 in enumerate(SECS):
        for s2 in SECS[i + 1:]:
            add("pair:%s+%s" % (s1, s2), [{s1: 1} if s1 in MAIN else {}, dict(([(s1, 1)] if s1 not in MAIN else []) + [(s2, 1)])])
    for s in MAIN:
        add("twice:" + s, [{s: 1}, {s: 2}])      # the whole-entry replacement case
        add("twice-same:" + s, [{s: 3}, {s: 1}])
    add("groups-parent-then-sub", [{"gpar": 3}, {"gsub": 1}])
    add("groups-both-one-source", [{}, {"gpar": 3, "gsub": 1}])
    add("groups-both-one-source-b", [{}, {"gpar": 1, "gsub": 3}])
    add("style-jcl", [{"global": 1}, {"rule": 2}], style="jcl")
    add("style-indent_only", [{"gpar": 1}, {"fl_rule": 1}], style="indent_only")
    while len(out) < n:
        srcs = []
        for i in range(rnd.choice([1, 2, 2, 3])):
            src = {}
            for s in (SECS if i == 0 or True else MAIN):
                if rnd.random() < (0.35 if s in MAIN else 0.12):
                    src[s] = rnd.choice([1, 2, 3]) if s in MAIN else rnd.choice([1, 3])
            srcs.append(src)
        # per-file sections in at most one source (file_list entries of several sources are appended and the FIRST one is used)
        pf = [i for i, s in enumerate(srcs) if any(x not in MAIN for x in s)]
        for i in pf[:-1]:
            srcs[i] = dict((x, v) for x, v in srcs[i].items() if x in MAIN)
        add("random", srcs)
    return out


def rule_meta():
    import vsgenv  # noqa: F401
    import cfgrun

    return cfgrun.rule_meta()


def _collect(tier):
    t0 = time.time()
    seed = common.seed()
    q = tier == "quick"
    wd = orchestrate.workdir("cfgfam_" + tier)
    design = []
    for cfg, expect in (("MC_Config.cfg", None), ("MC_Config_AttributeWise.cfg", None), ("Known_Config_WholeEntry.cfg", "C12_Precedence"), ("Mutant_Config_MostSpecificGroup.cfg", "C12_Precedence")):
        res = tlc.model_check("Config", cfg, workers=16, timeout=1800)
        ok = res.ok if expect is None else ("Invariant %s is violated" % expect) in res.out
        design.append({"module": "Config", "cfg": cfg, "ok": ok, "states": res.states, "distinct": res.distinct, "expect": expect or "no error", "error": res.error[:300]})
    meta, par, sub, dep = rule_meta()
    nsh = 16
    jobs = []
    fid = 0
    inputs = [os.path.join(common.REPO, "tests", "styles", "code_examples", x) for x in ("comments.vhd", "spi_master.vhd", "grp_debouncer.vhd")]
    stacks = gen_stacks(240 if q else 3000, seed)
    for k in range(nsh):
        fid += 1
        jobs.append({"out": os.path.join(wd, "stack%02d.json" % k), "work": os.path.join(wd, "stack_w%02d" % k), "mode": "stack", "first_id": fid * 1000000, "input": inputs[k % 2],
                     "stacks": stacks[k::nsh]})
    names = dep + ["no_such_rule_001", "entity_999", "process_0001", "vsg_global"]
    if q:
        rnd = random.Random(seed)
        names = rnd.sample(dep, 24) + names[-4:]
    for k in range(nsh):
        part = names[k::nsh]
        if part:
            fid += 1
            jobs.append({"out": os.path.join(wd, "cfgerr%02d.json" % k), "work": os.path.join(wd, "cfgerr_w%02d" % k), "mode": "cfgerror", "first_id": fid * 1000000, "input": inputs[0],
                         "names": part, "where": ["rule"] if q else ["rule", "file_list", "file_rules"]})
    # round trips
    import configs

    table, _ = configs.harvest()
    sweep1, _ = configs.sweep_config(table, 1)
    sweep2, _ = configs.sweep_config(table, 2)
    sev = {"severity": {"Todo": {"type": "error"}, "Future": {"type": "warning"}}, "rule": {"length_001": {"severity": "Todo"}, "group": {"case": {"severity": "Future"}}}}
    lay = [{"rule": {"global": {"indent_size": 4}, "group": {"whitespace": {"disable": True}}}}, {"rule": {"process_016": {"disable": True}, "group": {"case": {"fixable": False}}}}]
    # yes/no options given as YAML booleans (unquoted yes / no) at the global and group levels
    ybool = [{"rule": {"global": {"ignore_single_line": True}, "group": {"alignment": {"compact_alignment": True, "blank_line_ends_group": False, "comment_line_ends_group": False},
                                                                        "structure": {"ignore_single_line": False}}}}]
    # list options whose ORDER matters (the first matching exception wins): overlapping entries, the longer first
    olists = [{"rule": {"signal_004": {"prefix_exceptions": ["s_axi_", "s_"], "suffix_exceptions": ["_reg_n", "_n"]}, "constant_004": {"prefix_exceptions": ["c_big_", "c_"]},
                        "port_010": {"prefix_exceptions": ["p_in_", "p_"], "suffix_exceptions": ["_in_i", "_i"]}}}]
    scen = []
    for style in (None, "jcl", "indent_only"):
        for cname, cfgs in (("none", []), ("sweep1", [sweep1]), ("layered", lay), ("severity", [sev]), ("yaml-booleans", ybool), ("ordered-lists", olists), ("sweep2+layered", [sweep2] + lay)):
            if q and style == "indent_only" and cname not in ("none", "layered", "yaml-booleans", "ordered-lists"):
                continue
            scen.append({"name": "%s+%s" % (style, cname), "style": style, "configs": cfgs, "inputs": inputs[:2] if q else inputs})
    for k in range(nsh):
        part = scen[k::nsh]
        if part:
            fid += 1
            jobs.append({"out": os.path.join(wd, "rt%02d.json" % k), "work": os.path.join(wd, "rt_w%02d" % k), "mode": "roundtrip", "first_id": fid * 1000000, "seed": seed + k, "scenarios": part})
    # layered vs flat behaviour
    live = sorted(meta)
    groups_of = {}
    import cfgrun  # noqa: F401
    from vsg import rule_list as _rl, vhdlFile as _vf

    rl = _rl.rule_list(_vf.vhdlFile([""]), None)
    for r in rl.rules:
        if not r.deprecated:
            groups_of[r.unique_id] = list(r.groups)
    eq = []
    for inp in inputs[:2] if q else inputs:
        eq.append({"name": "global-disable+rule-enable", "input": inp,
                   "layered": [{"rule": {"global": {"disable": True}}}, {"rule": {"process_016": {"disable": False}, "architecture_010": {"disable": False}, "port_007": {"disable": False}}}],
                   "flat": {"rule": dict((r, {"disable": r not in ("process_016", "architecture_010", "port_007")}) for r in live)}})
        eq.append({"name": "group-fixable-false", "input": inp,
                   "layered": [{"rule": {"group": {"whitespace": {"fixable": False}}}}],
                   "flat": {"rule": dict((r, {"fixable": False}) for r in live if "whitespace" in groups_of.get(r, []))}})
        eq.append({"name": "global-warning+group-error", "input": inp,
                   "layered": [{"rule": {"global": {"severity": "Warning"}}}, {"rule": {"group": {"structure": {"severity": "Error"}}}}],
                   "flat": {"rule": dict((r, {"severity": "Error" if "structure" in groups_of.get(r, []) else "Warning"}) for r in live)}})
        eq.append({"name": "rule-phase", "input": inp,
                   "layered": [{"rule": {"group": {"case": {"phase": 2}}}}, {"rule": {"entity_004": {"phase": 7}}}],
                   "flat": {"rule": dict([(r, {"phase": 2}) for r in live if "case" in groups_of.get(r, [])] + [("entity_004", {"phase": 7})])}})
    for k in range(nsh):
        part = eq[k::nsh]
        if part:
            fid += 1
            jobs.append({"out": os.path.join(wd, "eq%02d.json" % k), "work": os.path.join(wd, "eq_w%02d" % k), "mode": "equiv", "first_id": fid * 1000000, "scenarios": part})
    outs = []
    for i in range(0, len(jobs), 16):
        outs += _run_jobs(jobs[i : i + 16], wd, "cfgrun.py")
    t1 = time.time()
    results = tlc.validate_shards(outs, module="ConfigTrace", parallel=16, timeout=3000)
    findings = []
    stats = {"records": {}, "nontrivial": {}, "tlc_states": 0, "tlc_errors": [], "machinery": [], "drift": 0, "rules_per_stack": len(meta), "deprecated": len(dep)}
    samples = {}
    for path, res in results:
        D = json.load(open(path))
        recs = dict((r["id"], r) for r in D["recs"])
        stats["tlc_states"] += res.states
        if not res.ok or res.states != len(recs):
            stats["tlc_errors"].append({"shard": os.path.basename(path), "error": res.error[:400], "states": res.states, "recs": len(recs)})
        for r in D["recs"]:
            t = r["t"]
            if t == "machinery":
                stats["machinery"].append(r["tb"][-600:])
                continue
            stats["records"][t] = stats["records"].get(t, 0) + 1
            if t == "stack":
                nt = any(any(src[s] for s in SECS) for src in r["stack"])
                if r["status"] != "ok":
                    stats["machinery"].append("stack %s: %s %s" % (r["name"], r["status"], r.get("output", "")[-200:]))
                s = {"stack": [dict((k, v) for k, v in src.items() if v) for src in r["stack"]], "observed": r["obs"][:3]}
            elif t == "cfgerror":
                nt = True
                s = {"name": r["name"], "where": r["where"], "exit": r["exit"], "diagnosed": r["diagnosed"]}
            elif t == "roundtrip":
                nt = len(r["oc1"]) > 0
                s = {"scenario": r["name"], "entries": len(r["oc1"]), "status": r["status"][:80]}
            else:
                nt = True
                s = {"clause": r["clause"], "file": r["file"], "cfg": r["cfg"], "violations": len(r["a"]["reported"])}
            if nt:
                stats["nontrivial"][t] = stats["nontrivial"].get(t, 0) + 1
                samples.setdefault(t + (":" + r["clause"] if t == "equiv" else ""), s)
        for rid, k, clause in res.verdicts:
            r = recs[rid]
            if clause.startswith("DRIFT"):
                stats["drift"] += 1
                continue
            prop = clause.split("_")[0]
            t = r["t"]
            if t == "stack":
                o = r["obs"][k - 1] if 0 < k <= len(r["obs"]) else {}
                f = {"property": prop, "clause": clause, "rule": "", "input": "stack:" + r["name"].split("#")[0], "config": "hasSub=%s" % o.get("hasSub"),
                     "detail": {"stack": [dict((kk, v) for kk, v in src.items() if v) for src in r["stack"]], "observed": o}}
            elif t == "cfgerror":
                f = {"property": prop, "clause": clause, "rule": r["name"], "input": "cfgerror:" + r["where"], "config": "", "detail": {"exit": r["exit"], "output": r["output"]}}
            elif t == "roundtrip":
                f = {"property": prop, "clause": clause, "rule": "", "input": "roundtrip:" + r["name"], "config": "", "detail": {"status": r["status"], "diff": r.get("diff"), "effective_differs": r.get("effDiff")}}
            else:
                f = {"property": prop, "clause": clause, "rule": "", "input": r["file"], "config": r["cfg"], "detail": {}}
            findings.append(f)
    stats["wall"] = {"drivers": round(t1 - t0, 1), "tlc": round(time.time() - t1, 1)}
    shutil.rmtree(wd, ignore_errors=True)
    return {"findings": findings, "stats": stats, "design": design, "samples": samples}


TYPES = {"C12": ["stack", "cfgerror", "equiv:C12_LayeredBehavesAsEffective"], "C17": ["roundtrip", "equiv:C17_EmittedConfigurationReproducesRun"]}


def check(prop, tier):
    t0 = time.time()
    r = collect(tier)
    st = r["stats"]
    bad = [d for d in r["design"] if not d["ok"]]
    mach = [f for f in r["findings"] if f["clause"].startswith("B_")]
    if st["tlc_errors"] or bad or st["machinery"] or mach:
        common.machinery("cfg: tlc=%s design=%s machinery=%s" % (st["tlc_errors"][:2], bad, st["machinery"][:2]))
    mine = [f for f in r["findings"] if f["property"] == prop]
    known_hits, new = F.split_known(mine, prop)
    rc = common.report(prop, known_hits, new, lambda f: F.write_replay(prop, f))
    types = [t.split(":")[0] for t in TYPES[prop]]
    nrec = sum(st["records"].get(t, 0) for t in set(types))
    cov = {
        "states": sum(d["states"] for d in r["design"]) + st["tlc_states"],
        "transitions": sum(d["states"] for d in r["design"]) + st["tlc_states"],
        "traces_validated_against_impl": nrec,
        "samples": [r["samples"][t] for t in TYPES[prop] if t in r["samples"]] or [{"note": "none"}],
        "evaluations": max(1, nrec),
        "distinct_nontrivial": sum(st["nontrivial"].get(t, 0) for t in set(types)),
        "rule": "stack: one configuration stack (1-3 sources x 12 sections x {absent, a, b, a+b}) instantiated as JSON files for all %d rules at once and loaded by the real loader; "
                "cfgerror: one CLI run per unknown / deprecated rule name; roundtrip: -oc, then -c of it with -oc again, -rc samples, behaviour of both on sample inputs; "
                "equiv: layered vs flat configuration through check and fix; non-trivial = a stack that mentions something / any other record" % st["rules_per_stack"],
        "design_models": r["design"] if prop == "C12" else [],
        "records_by_type": st["records"],
        "model_drift": st["drift"],
        "from_cache": r.get("cached", False),
        "collection_wall_s": st["wall"],
    }
    common.write_evidence(prop, tier, "model_checking", cov, time.time() - t0, len(new),
                          ["TLC/SANY, Json module", "attributes user_error_message (acts: appended to every solution) and indent_size stand for every configurable attribute",
                           "per-file sections are given by at most one source of a stack", "docs/configuring_overview.rst and multiple_configurations.rst are the reference precedence"])
    return rc
