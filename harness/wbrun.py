# -*- coding: utf-8 -*-
"""C16 / C04(c) driver: the UNMODIFIED command line (python /repo/bin/vsg) under strace, with system-call failures and
SIGKILL injected at every call that touches the target, its .tmp or its .bak; the recorded calls and the disk state
afterwards go to TLC (spec/WriteBackTrace.tla).

usage (internal): wbrun.py <job.json>   job = {"out", "work", "scenarios": [...]}
scenario = {"id", "src", "mode", "umask", "backup", "stale", "args", "inject": null | {"call", "error" | "signal", "when"}, "clean", "kind"}
"""
import json
import os
import re
import shutil
import subprocess
import sys

REPO = os.environ.get("VSG_VERIF_REPO", "/repo")
PY = os.environ.get("VSG_VERIF_PYTHON", "/venv/bin/python")

_LINE = re.compile(r"^(\d+)\s+(\w+)\((.*)\)\s+=\s+(-?\d+|\?)(.*)$")


def classify(path, orig, fixed, stale=b"stale"):
    if not os.path.exists(path):
        return "absent", 0
    with open(path, "rb") as f:
        b = f.read()
    mode = os.stat(path).st_mode & 0o7777
    if b == orig:
        return "orig", mode
    if fixed is not None and b == fixed:
        return "fixed", mode
    if b == b"":
        return "empty", mode
    if b == stale:
        return "other", mode
    return "partial", mode


def parse_strace(log, paths, sizes):
    """-> list of events on target/tmp/bak; paths: {abs path: obj}; sizes: {"tmp": len(fixed), "bak": len(orig)}"""
    fd = {}
    written = {"tmp": 0, "bak": 0, "target": 0}
    ev = []
    killed = False
    with open(log, errors="replace") as f:
        for line in f:
            if "+++ killed by SIGKILL" in line:
                killed = True
            m = _LINE.match(line.rstrip("\n"))
            if not m:
                continue
            pid, call, args, ret, rest = m.groups()
            ok = ret not in ("?",) and int(ret) >= 0
            perm = ("EACCES" in rest) or ("EPERM" in rest)

            def obj_of_path():
                for p, o in paths.items():
                    if '"%s"' % p in args:
                        return o
                return None

            if call in ("openat", "open"):
                o = obj_of_path()
                if o is None:
                    continue
                if ok:
                    fd[(pid, int(ret))] = o
                if "O_WRONLY" in args or "O_RDWR" in args or "O_TRUNC" in args or "O_CREAT" in args:
                    if ok:
                        written[o] = 0
                    ev.append({"c": "openw", "obj": o, "ok": ok, "full": False, "mode": 0, "perm": perm})
            elif call == "close":
                try:
                    o = fd.pop((pid, int(args.strip())), None)
                except ValueError:
                    o = None
                if o is not None and not ok and ret != "?":
                    ev.append({"c": "closefail", "obj": o, "ok": False, "full": False, "mode": 0, "perm": perm})
            elif call in ("write", "pwrite64"):
                try:
                    o = fd.get((pid, int(args.split(",")[0])))
                except ValueError:
                    o = None
                if o is None:
                    continue
                if ok:
                    written[o] += int(ret)
                ev.append({"c": "write", "obj": o, "ok": ok, "full": ok and written[o] == sizes.get(o, -1), "mode": 0, "perm": perm})
            elif call in ("sendfile", "copy_file_range"):
                try:
                    o = fd.get((pid, int(args.split(",")[0])))
                except ValueError:
                    o = None
                if o is None:
                    continue
                if ok and int(ret) == 0:
                    continue  # end-of-file probe
                if ok:
                    written[o] += int(ret)
                ev.append({"c": "copy", "obj": o, "ok": ok, "full": ok and written[o] == sizes.get(o, -1), "mode": 0, "perm": perm})
            elif call in ("chmod", "fchmodat"):
                o = obj_of_path()
                if o is None:
                    continue
                mm = re.search(r",\s*0?([0-7]+)\s*(?:,|$|\))", args)
                mode = int(mm.group(1), 8) & 0o7777 if mm else 0
                ev.append({"c": "chmod", "obj": o, "ok": ok, "full": False, "mode": mode, "perm": perm})
            elif call == "fchmod":
                try:
                    o = fd.get((pid, int(args.split(",")[0])))
                except ValueError:
                    o = None
                if o is None:
                    continue
                mm = re.search(r",\s*0?([0-7]+)", args)
                ev.append({"c": "chmod", "obj": o, "ok": ok, "full": False, "mode": int(mm.group(1), 8) & 0o7777 if mm else 0, "perm": perm})
            elif call in ("rename", "renameat", "renameat2"):
                names = re.findall(r'"([^"]+)"', args)
                objs = [paths.get(x) for x in names]
                if not any(objs):
                    continue
                if len(objs) == 2 and objs[0] == "tmp" and objs[1] == "target":
                    ev.append({"c": "rename", "obj": "tmp", "ok": ok, "full": False, "mode": 0, "perm": perm})
                else:
                    ev.append({"c": "rename_other", "obj": objs[-1] or objs[0] or "target", "ok": ok, "full": False, "mode": 0, "perm": perm})
            elif call in ("unlink", "unlinkat"):
                o = obj_of_path()
                if o is None:
                    continue
                ev.append({"c": "unlink", "obj": o, "ok": ok, "full": False, "mode": 0, "perm": perm})
            elif call == "utimensat":
                o = obj_of_path()
                if o is None:
                    continue
                ev.append({"c": "utime", "obj": o, "ok": ok, "full": False, "mode": 0, "perm": perm})
            elif call in ("truncate", "ftruncate"):
                o = obj_of_path()
                if o is None:
                    try:
                        o = fd.get((pid, int(args.split(",")[0])))
                    except ValueError:
                        o = None
                if o is None:
                    continue
                ev.append({"c": "openw", "obj": o, "ok": ok, "full": False, "mode": 0, "perm": perm})
    return ev, killed


def count_calls(log):
    """path-matched occurrences of each system call in a fault-free run -> {call: n}"""
    c = {}
    with open(log, errors="replace") as f:
        for line in f:
            m = _LINE.match(line.rstrip("\n"))
            if m:
                c[m.group(2)] = c.get(m.group(2), 0) + 1
    return c


def run_scenario(sc, work, fixed_cache):
    d = os.path.join(work, "s%d" % sc["id"])
    shutil.rmtree(d, ignore_errors=True)
    os.makedirs(d)
    with open(sc["src"], "rb") as f:
        orig = f.read()
    if sc.get("transform") == "crlf":
        orig = orig.replace(b"\r\n", b"\n").replace(b"\n", b"\r\n")
    elif sc.get("transform") == "nofinalnl":
        orig = orig.rstrip(b"\r\n")
    elif sc.get("transform") == "trailws":
        # trailing blanks that no enabled rule objects to (the scenario disables whitespace_001)
        orig = orig + b"\n-- the end   \n"        # (after a blank line: a comment directly below 'end architecture;' would itself be a fixable violation)
    elif sc.get("transform") == "trailws_tagged":
        orig = orig + b"\n-- vsg_off whitespace_001\n-- the end   \n-- vsg_on\n"
    target = os.path.join(d, "t.vhd")
    with open(target, "wb") as f:
        f.write(orig)
    os.chmod(target, sc["mode"])
    if sc.get("hardlink"):
        os.link(target, os.path.join(d, "second_name.vhd"))     # the file has two names (st_nlink = 2)
    tmp, bak = target + ".tmp", target + ".bak"
    if sc["stale"]:
        with open(tmp, "wb") as f:
            f.write(b"stale")
        os.chmod(tmp, sc["stale"])
    st0 = os.stat(target)
    fixed = fixed_cache.get((sc["src"], sc.get("transform"), tuple(sc["args"])))
    log = os.path.join(d, "strace.log")
    cmd = ["strace", "-f", "-o", log, "-P", target, "-P", tmp, "-P", bak]
    inj = sc.get("inject")
    if inj:
        if "signal" in inj:
            cmd += ["-e", "inject=%s:signal=%s:when=%d" % (inj["call"], inj["signal"], inj["when"])]
        else:
            cmd += ["-e", "inject=%s:error=%s:when=%d" % (inj["call"], inj["error"], inj["when"])]
    cmd += [PY, os.path.join(REPO, "bin", "vsg"), "-f", target, "-p", str(sc.get("jobs", 1))] + sc["args"]
    env = dict(os.environ)
    env["PYTHONDONTWRITEBYTECODE"] = "1"
    env.pop("VSG_VERIF_TRACE", None)
    p = subprocess.run(cmd, stdout=subprocess.PIPE, stderr=subprocess.STDOUT, env=env, preexec_fn=lambda: os.umask(sc["umask"]), timeout=300)
    out = p.stdout.decode(errors="replace")
    paths = {target: "target", tmp: "tmp", bak: "bak"}
    ev, killed = parse_strace(log, paths, {"tmp": len(fixed) if fixed is not None else -1, "target": len(fixed) if fixed is not None else -1, "bak": len(orig)})
    if fixed is None and not inj:
        # first fault-free run of this scenario base defines what "fixed" is
        with open(target, "rb") as f:
            now = f.read()
        fixed = now if now != orig else None
        fixed_cache[(sc["src"], sc.get("transform"), tuple(sc["args"]))] = fixed
        ev, killed = parse_strace(log, paths, {"tmp": len(fixed) if fixed is not None else -1, "target": len(fixed) if fixed is not None else -1, "bak": len(orig)})
    final = {}
    for name, pth in (("target", target), ("tmp", tmp), ("bak", bak)):
        c, m = classify(pth, orig, fixed)
        final[name] = {"content": c, "mode": m}
    st1 = os.stat(target) if os.path.exists(target) else None
    other = "none"
    if sc.get("hardlink"):
        other = classify(os.path.join(d, "second_name.vhd"), orig, fixed)[0]
    rec = {
        "otherName": other,
        "id": sc["id"], "kind": sc.get("kind", ""), "src": sc["src"], "args": sc["args"], "origMode": sc["mode"], "createMode": 0o666 & ~sc["umask"], "umask": sc["umask"],
        "backup": bool(sc["backup"]), "stale": sc["stale"], "inject": inj or {}, "faulted": bool(inj and "error" in inj), "ev": ev,
        "final": final, "killed": bool(killed or p.returncode in (-9, 137)), "rc": p.returncode,
        "expectWrite": fixed is not None and "--fix" in sc["args"], "clean": bool(sc.get("clean")),
        "sameInode": st1 is not None and st1.st_ino == st0.st_ino, "sameMtime": st1 is not None and st1.st_mtime_ns == st0.st_mtime_ns,
        "traceback": "Traceback (most recent call last)" in out, "output_tail": out[-300:],
        "calls": count_calls(log) if not inj else {},
    }
    shutil.rmtree(d, ignore_errors=True)
    return rec


def main():
    job = json.load(open(sys.argv[1]))
    os.makedirs(job["work"], exist_ok=True)
    fixed_cache = {}
    recs = []
    for sc in job["scenarios"]:
        try:
            recs.append(run_scenario(sc, job["work"], fixed_cache))
        except Exception as e:
            recs.append({"id": sc["id"], "machinery": "%s: %s" % (type(e).__name__, e)})
    # second stage: fault schedules derived from the fault-free run of each base scenario
    nid = job.get("next_id", 100000)
    for base, rec in zip(list(job["scenarios"]), list(recs)):
        if not base.get("expand") or "calls" not in rec:
            continue
        for call, n in sorted(rec["calls"].items()):
            errs = job["errors"].get(call)
            if errs is None:
                continue
            for k in range(1, n + 1):
                for e in errs:
                    nid += 1
                    sc = dict(base, id=nid, inject=({"call": call, "signal": "KILL", "when": k} if e == "KILL" else {"call": call, "error": e, "when": k}), expand=False)
                    try:
                        recs.append(run_scenario(sc, job["work"], fixed_cache))
                    except Exception as ex:
                        recs.append({"id": nid, "machinery": "%s: %s" % (type(ex).__name__, ex)})
    with open(job["out"], "w") as f:
        json.dump({"recs": recs}, f, separators=(",", ":"))


if __name__ == "__main__":
    main()
