# -*- coding: utf-8 -*-
"""The check / report family: C06 (analysis is pure), C13 (phase gating, fix_phase, skip_phase), C14 (report formats and
exit status), C20 (--fix_only).  Design-level TLC on spec/CheckReport.tla (+ mutant); scenarios run through the real
apply_rules / main() (harness/chkrun.py) and validated by TLC against spec/CheckTrace.tla, which EXECUTES the
specification's Check on the recorded per-rule violations and compares."""
import json
import os
import shutil
import time

import common
import corpus
import findings as F
import orchestrate
import tlc
from tagfam import _run_jobs

FAMILY = ["C06", "C13", "C14", "C20"]
FAMILY_FILES = ["harness/chkfam.py", "harness/chkrun.py", "harness/vlex.py", "harness/runfix.py", "harness/tagfam.py", "spec/CheckOps.tla", "spec/CheckReport.tla", "spec/CheckTrace.tla", "spec/CheckTrace.cfg",
                "spec/MC_CheckReport.cfg", "spec/Mutant_CheckReport_BreakInSubphase.cfg", "spec/FixSchedule.tla", "spec/MC_FixSchedule_quick.cfg", "spec/MC_FixSchedule_thorough.cfg",
                "spec/Mutant_FixSchedule_LinesIgnored.cfg", "spec/Mutant_FixSchedule_OffByOne.cfg"]

REJECTED_TEXT = "entity e is\n  port (a : in std_logic;\nend entity e\n\narchitecture a of e is\nbegin\n  process begin end end end;\n"


def collect(tier):
    th = common.tree_hash(FAMILY_FILES)
    key = "%s/chkfam_%s_%d" % (th, tier, common.seed())
    with common.Lock("chkfam_" + tier):
        cd = common.cache_dir(key)
        rp = os.path.join(cd, "result.json")
        if os.path.exists(rp):
            r = json.load(open(rp))
            r["cached"] = True
            return r
        r = _collect(tier)
        json.dump(r, open(rp, "w"))
        r["cached"] = False
        return r


def format_items(sample, wd):
    items = []
    k = 0
    sev = {"severity": {"Todo": {"type": "error"}, "Future": {"type": "warning"}}}
    rej = os.path.join(wd, "rejected_input.vhd")
    with open(rej, "w") as f:
        f.write(REJECTED_TEXT)
    clean = os.path.join(common.REPO, "tests", "styles", "code_examples", "comments.fixed.vhd")
    for i, p in enumerate(sample):
        for of in ("vsg", "syntastic", "summary"):
            for cname in ("default", "all-warning", "todo-error", "future-warning", "ap"):
                if (i + len(of) + len(cname)) % 2 and cname not in ("default", "todo-error"):
                    continue
                cfg = None
                if cname == "all-warning":
                    cfg = {"rule": {"global": {"severity": "Warning"}}}
                elif cname == "todo-error":
                    cfg = dict(sev, rule={"global": {"severity": "Todo"}})
                elif cname == "future-warning":
                    cfg = dict(sev, rule={"global": {"severity": "Future"}})
                k += 1
                items.append({"k": k, "files": [p], "of": of, "cfg": cfg, "cfgname": cname, "ap": cname == "ap"})
        others = [sample[(i + 1) % len(sample)], rej, clean if os.path.exists(clean) else sample[(i + 2) % len(sample)]]
        for of in ("vsg", "syntastic", "summary"):
            k += 1
            items.append({"k": k, "files": [p] + others, "of": of, "cfg": None, "cfgname": "multi+rejected"})
        k += 1
        items.append({"k": k, "files": [rej, p], "of": "vsg", "cfg": None, "cfgname": "rejected-first"})
        k += 1
        items.append({"k": k, "files": [p, sample[(i + 1) % len(sample)]], "of": "vsg", "cfg": None, "cfgname": "relative-paths", "pathstyle": "rel"})
        k += 1
        items.append({"k": k, "files": [p], "of": "vsg", "cfg": {"rule": {"no_such_rule_001": {"disable": True}}}, "cfgname": "unknown-rule"})
    return items


def _collect(tier):
    t0 = time.time()
    seed = common.seed()
    wd = orchestrate.workdir("chkfam_" + tier)
    design = []
    for module, cfg, expect in (("CheckReport", "MC_CheckReport.cfg", None), ("CheckReport", "Mutant_CheckReport_BreakInSubphase.cfg", "C13_GatedIsPrefix"),
                                ("FixSchedule", "MC_FixSchedule_quick.cfg" if tier == "quick" else "MC_FixSchedule_thorough.cfg", None),
                                ("FixSchedule", "Mutant_FixSchedule_LinesIgnored.cfg", "Inv_C20_OnlyListed"), ("FixSchedule", "Mutant_FixSchedule_OffByOne.cfg", "Inv_C13_FixPhase")):
        res = tlc.model_check(module, cfg, workers=16, timeout=1800)
        ok = res.ok if expect is None else ("Invariant %s is violated" % expect) in res.out
        design.append({"module": module, "cfg": cfg, "ok": ok, "states": res.states, "distinct": res.distinct, "expect": expect or "no error", "error": res.error[:300]})
    paths = [p for p in corpus.all_vhd()]
    base_inputs = [p for p in paths if p.endswith("_test_input.vhd") or "/styles/code_examples/" in p]
    q = tier == "quick"
    nsh = 16

    def items_of(n, salt):
        s = corpus.stratified_sample(base_inputs, n, seed + salt, always=("/styles/code_examples/spi", "/styles/code_examples/PIC", "/styles/code_examples/comments"))
        return [{"path": p, "name": corpus.rel(p)} for p in s]

    plan = [("gating", items_of(96 if q else 700, 1), {"cfgs": 3 if q else 4}),
            ("fixphase", items_of(64 if q else 500, 2), {}),
            ("purity", items_of(64 if q else 500, 3), {"perms": 1 if q else 3, "subsets": 3 if q else 5}),
            # the same experiment under a configuration in which option LISTS are given once for all rules (rule.global):
            # the list objects are shared between rules, so a rule that touches its list touches everyone's
            ("purity", items_of(20 if q else 200, 7), {"perms": 1 if q else 3, "subsets": 3 if q else 5, "base_cfg": SHARED_OPTIONS, "cfgname": "shared-options"}),
            ("fixonly", items_of(64 if q else 500, 4), {}),
            ("robust", items_of(96 if q else 900, 6), {"per_file": 4 if q else 8})]
    jobs = []
    fid = 0
    for mode, items, opts in plan:
        for k in range(nsh):
            part = items[k::nsh]
            if not part:
                continue
            fid += 1
            j = {"out": os.path.join(wd, "%s%02d.json" % (mode, k)), "work": os.path.join(wd, "%s_w%02d" % (mode, k)), "mode": mode, "items": part, "seed": seed + k, "first_id": fid * 1000000}
            j.update(opts)
            jobs.append(j)
    fsample = [it["path"] for it in items_of(6 if q else 40, 5)]
    fitems = format_items(fsample, wd)
    for k in range(nsh):
        part = fitems[k::nsh]
        if part:
            fid += 1
            jobs.append({"out": os.path.join(wd, "formats%02d.json" % k), "work": os.path.join(wd, "formats_w%02d" % k), "mode": "formats", "items": part, "seed": seed, "first_id": fid * 1000000})
    outs = []
    for i in range(0, len(jobs), 16):
        outs += _run_jobs(jobs[i : i + 16], wd, "chkrun.py")
    t1 = time.time()
    results = tlc.validate_shards(outs, module="CheckTrace", parallel=16, timeout=3000)
    findings = []
    stats = {"records": {}, "nontrivial": {}, "tlc_states": 0, "tlc_errors": [], "machinery": [], "gating_runs": 0}
    samples = {}
    for path, res in results:
        D = json.load(open(path))
        recs = dict((r["id"], r) for r in D["recs"])
        stats["tlc_states"] += res.states
        if not res.ok or res.states != len(recs):
            stats["tlc_errors"].append({"shard": os.path.basename(path), "error": res.error[:400], "states": res.states, "recs": len(recs)})
        for r in D["recs"]:
            t = r["t"]
            if t == "machinery":
                stats["machinery"].append(r["tb"][-600:])
                continue
            stats["records"][t] = stats["records"].get(t, 0) + 1
            nt = False
            if t == "gating":
                stats["gating_runs"] += len(r["runs"])
                nt = len(r["V"]) > 0
                s = {"file": r["file"], "cfg": r["cfg"], "violations": len(r["V"]), "runs": [{"ap": x["ap"], "skip": x["skip"], "reported": len(x["reported"]), "last": x["last"], "ran": x["ran"]} for x in r["runs"][:4]]}
            elif t == "purity":
                nt = len(r["V"]) > 0
                s = {"file": r["file"], "violations": len(r["V"]), "permutations": len(r["perms"]), "disabled_subsets": [len(x["D"]) for x in r["subsets"]]}
            elif t == "fixonly":
                nt = r["kind"] not in ("none",)
                s = {"file": r["file"], "kind": r["kind"], "selection": r.get("sel", "")[:120], "fixed_rules": len(r["fixedRules"])}
            elif t == "robust":
                nt = r["outcome"] != "accepted"
                s = {"file": r["file"], "damage": r["how"], "mode": r["mode"], "outcome": r["outcome"], "located": r["located"]}
            elif t == "formats":
                nt = len(r["truth"]) > 0
                s = {"format": r["of"], "config": r["cfgname"], "violations": len(r["truth"]), "exit": r["exit"], "artefacts": [k for k, v in r["has"].items() if v]}
            else:
                nt = r["a"]["text"] != 0
                s = {"file": r["file"], "clause": r["clause"], "cfg": r["cfg"]}
            if nt:
                stats["nontrivial"][t] = stats["nontrivial"].get(t, 0) + 1
                samples.setdefault(t, s)
        for rid, k, clause in res.verdicts:
            r = recs[rid]
            prop = clause.split("_")[0]
            t = r["t"]
            if t == "gating":
                run = r["runs"][k - 1] if 0 < k <= len(r["runs"]) else {}
                f = {"property": prop, "clause": clause, "rule": "", "input": r["file"], "config": "%s ap=%s skip=%s" % (r["cfg"], run.get("ap"), run.get("skip")),
                     "detail": {"cfg": r["cfg"], "run": {k2: v for k2, v in run.items() if k2 != "reported"}, "reported": len(run.get("reported", [])), "violations": len(r["V"])}}
            elif t == "purity":
                names = [x[0] for x in r.get("impure_names", [])]
                f = {"property": prop, "clause": clause, "rule": ",".join(sorted(set(names))) if clause == "C06_AnalyzePure" else "", "input": r["file"], "config": "purity" + ((" " + r["cfgname"]) if r.get("cfgname") else ""),
                     "detail": {"impure": r.get("impure_names"), "subset": k, "D": len(r["subsets"][k - 1]["D"]) if 0 < k <= len(r["subsets"]) else None}}
            elif t == "fixonly":
                f = {"property": prop, "clause": clause, "rule": r.get("rule", ""), "input": r["file"], "config": "fix_only:" + r["kind"],
                     "detail": {k2: r.get(k2) for k2 in ("sel", "fixedLines", "listedLines", "changedLines", "reportedLines", "untouched", "status")}}
            elif t == "robust":
                f = {"property": prop, "clause": clause, "rule": r.get("site", "") or ",".join(r.get("rule_crashes", [])), "input": r["file"] + ("#damaged:" + r["how"] if r["how"] != "none" else ""), "config": r["mode"] + " " + r["status"],
                     "detail": {"status": r["status"], "tail": r["tail"], "tb": r["tb"]}}
            elif t == "formats":
                f = {"property": prop, "clause": clause, "rule": "", "input": "formats:" + r["cfgname"], "config": "-of " + r["of"],
                     "detail": {"exit": r["exit"], "procErr": r["procErr"], "truth": len(r["truth"]), "status": r["status"], "tail": r.get("stdout_tail", "")[-300:]}}
            else:
                f = {"property": prop, "clause": clause, "rule": "", "input": r["file"], "config": r["cfg"], "detail": {"fixed_rules_a": r.get("fixed_rules_a")}}
            findings.append(f)
    stats["wall"] = {"design": round(sum(1 for _ in design), 1), "drivers": round(t1 - t0, 1), "tlc": round(time.time() - t1, 1)}
    shutil.rmtree(wd, ignore_errors=True)
    return {"findings": findings, "stats": stats, "design": design, "samples": samples}


# overlapping exceptions, the shorter first: with "first match wins" the order of the list decides the verdict
SHARED_OPTIONS = {"rule": {"global": {"prefix_exceptions": ["p_", "p_in_", "s_", "s_axi_", "i_", "o_", "g_", "c_"], "suffix_exceptions": ["_i", "_in_i", "_o", "_t", "_n", "_reg_n"]}}}

TYPES = {"C06": ["purity"], "C13": ["gating", "equiv"], "C14": ["formats"], "C20": ["fixonly"], "C19": ["robust"]}
LEVEL = {"C06": "exploration", "C13": "model_checking", "C14": "model_checking", "C20": "model_checking"}


def check(prop, tier):
    t0 = time.time()
    r = collect(tier)
    st = r["stats"]
    bad = [d for d in r["design"] if not d["ok"]]
    mach = [f for f in r["findings"] if f["clause"].startswith("B_")]
    if st["tlc_errors"] or bad or st["machinery"] or mach:
        common.machinery("chk: tlc=%s design=%s machinery=%s binding=%s" % (st["tlc_errors"][:2], bad, st["machinery"][:1], [(f["clause"], f["input"]) for f in mach[:3]]))
    mine = [f for f in r["findings"] if f["property"] == prop]
    extra = {}
    if prop in ("C13", "C20", "C06"):
        # the fix-side clauses (C13_FixPhase, C13_PhaseOrder, C20_OnlyListed) and C06_AnalyzePure (every analysis of every
        # traced fix / check run leaves the token list and the token index alone) are evaluated on every fix-run trace as well
        import fixfam

        fr = fixfam.collect(tier)
        fst = fr["stats"]
        if fst["tlc_errors"] or fst["unfinished"] or [f for f in fr["findings"] if f["clause"].startswith("B_")]:
            common.machinery("fix-run traces: %s %s" % (fst["tlc_errors"][:2], fst["unfinished"][:3]))
        mine += [f for f in fr["findings"] if f["property"] == prop]
        extra["fix_run_traces"] = fst["traces"]
    if prop in ("C14", "C20"):
        # the exit status and the JUnit / JSON entries of multi-file, multi-job invocations, as behaviours of spec/Main.tla
        # (C20: one --fix_only selection given for several files of one invocation)
        import batchfam

        bf, binfo = batchfam.extra_findings(prop, tier)
        mine += bf
        extra["command_line_model"] = binfo
    known_hits, new = F.split_known(mine, prop)
    rc = common.report(prop, known_hits, new, lambda f: F.write_replay(prop, f))
    nrec = sum(st["records"].get(t, 0) for t in TYPES[prop])
    nnt = sum(st["nontrivial"].get(t, 0) for t in TYPES[prop])
    cov = {
        "states": sum(d["states"] for d in r["design"]) + st["tlc_states"],
        "transitions": sum(d["states"] for d in r["design"]) + st["tlc_states"],
        "traces_validated_against_impl": nrec,
        "samples": [r["samples"][t] for t in TYPES[prop] if t in r["samples"]] or [{"note": "no non-trivial sample"}],
        "evaluations": max(1, nrec),
        "distinct_nontrivial": nnt,
        "rule": {"C06": "one record per file: all-phases check, repeated check, permuted rule order(s), disabled subsets; non-trivial = the file has violations",
                 "C13": "one record per (file, configuration): an --all_phases run gives every rule's violations, then runs over (ap, skip) combinations; TLC executes the spec's Check "
                        "and compares report, last phase, rules ran, status; plus fix_phase N vs disabling phases > N; non-trivial = the file has violations",
                 "C14": "one CLI run (main()) per (files, format, severity configuration) with json, junit and quality report; non-trivial = at least one violation",
                 "C20": "one --fix_only run per (file, selection kind: none / all / one rule / one rule + lines / two rules); non-trivial = a selection that lists something"}[prop],
        "design_models": r["design"] if prop in ("C13", "C20") else [],
        "records_by_type": st["records"],
        "gating_runs": st["gating_runs"],
        "from_cache": r.get("cached", False),
        "collection_wall_s": st["wall"],
    }
    cov.update(extra)
    common.write_evidence(prop, tier, LEVEL[prop], cov, time.time() - t0, len(new),
                          ["TLC/SANY, Json module", "harness/hooks.py reports the violations standing on the rules after check_rules faithfully (ground truth of every comparison)",
                           "the artefact parsers of harness/chkrun.py (stdout table, syntastic lines, summary line, JSON, JUnit XML, quality report)",
                           "inputs: seeded stratified sample of the fixture corpus"])
    return rc
