# -*- coding: utf-8 -*-
"""C11 drivers: (stamps) every sequence of tag / ordinary lines up to a bound through the real parser;
(report) tag comments planted in corpus files vs. their neutral twins through the real rule set.

usage (internal): tagrun.py <job.json>
"""
import contextlib
import io
import itertools
import json
import os
import random
import re
import sys

os.environ.setdefault("VSG_VERIF_TRACE", "1")
sys.path.insert(0, os.path.dirname(os.path.abspath(__file__)))
import vsgenv  # noqa: E402,F401
import hooks  # noqa: E402
from runfix import parse_args  # noqa: E402

from vsg import apply_rules, config, vhdlFile  # noqa: E402
from vsg import parser as vparser  # noqa: E402

RA, RB, RC = "process_016", "process_018", "architecture_010"
IDS = {"a": RA, "b": RB}
KINDS = [("off", ()), ("on", ()), ("code", ())] + [(k, ids) for k in ("off", "on", "next") for ids in (("a",), ("b",), ("a", "b"))]
TAGWORD = {"off": "vsg_off", "on": "vsg_on", "next": "vsg_disable_next_line"}


def tag_text(kind, ids, names=IDS, remark=False):
    s = "-- " + TAGWORD[kind]
    for i in ids:
        s += " " + names[i]
    if remark:
        s += " : because"
    return s


def stamps_record(rid, seq):
    lines = ["architecture rtl of e is", "begin"]
    for i, (k, ids) in enumerate(seq):
        if k == "code":
            lines.append(["  a <= b;", "  -- just a note", "", "  c <= d; -- trailing"][i % 4])
        else:
            lines.append(("  " if i % 2 else "") + tag_text(k, ids, remark=(i % 3 == 2)))
    lines.append("end architecture rtl;")
    f = vhdlFile.vhdlFile(lines)
    # first token of every line
    obs = []
    cur = []
    per_line = []
    for t in f.lAllObjects:
        cur.append(t)
        if isinstance(t, vparser.carriage_return):
            per_line.append(cur)
            cur = []
    for ln in per_line[2 : 2 + len(seq)]:
        tok = next((t for t in ln if not isinstance(t, vparser.whitespace)), ln[0])
        obs.append([x for x, r in (("a", RA), ("b", RB), ("c", RC)) if tok.has_code_tag(r)])
    return {"t": "stamps", "id": rid, "lines": [{"k": k, "ids": list(ids)} for k, ids in seq], "obs": obs}


TAGRX = re.compile(r"^\s*--\s*(vsg_off|vsg_on|vsg_disable_next_line)\b")


def run_check(path_or_text, args, workdir, name, fix=False):
    T = hooks.set_tracer(hooks.Tracer(toi=False))
    T.check_viol = True
    tmp = os.path.join(workdir, name)
    with open(tmp, "w", encoding="utf-8", newline="") as f:
        f.write(path_or_text)
    out = io.StringIO()
    status = "ok"
    try:
        with contextlib.redirect_stdout(out), contextlib.redirect_stderr(out):
            cla = parse_args(["-f", tmp] + args)
            oConfig = config.New(cla)
            apply_rules.apply_rules(cla, oConfig, (0, tmp))
    except SystemExit:
        status = "exit"
    except Exception as e:
        status = "crash:" + type(e).__name__
    with open(tmp, encoding="utf-8", newline="") as f:
        text = f.read()
    os.remove(tmp)
    viol = []
    rejected = any(e["e"] == "Rejected" for e in T.ev)
    for e in T.ev:
        if e["e"] == "CheckViol":
            viol = e["v"]
    hooks.set_tracer(None)
    return {"status": status, "viol": viol, "text": text, "rejected": rejected}


def plant(lines, placement):
    """placement: list of (before_line_index (0-based), kind, ids) ; returns tagged lines, neutral lines, kinds per line"""
    ins = {}
    for pos, k, ids in placement:
        ins.setdefault(pos, []).append((k, ids))
    tagged, neutral, kinds = [], [], []
    for i, ln in enumerate(lines + [None]):
        for k, ids in ins.get(i, []):
            t = tag_text(k, ids, names=placement_names)
            tagged.append(t)
            neutral.append(t.replace("vsg_", "vsx_"))
            kinds.append({"k": k, "ids": list(ids)})
        if ln is not None:
            tagged.append(ln)
            neutral.append(ln)
            kinds.append({"k": "code", "ids": []})
    return tagged, neutral, kinds


placement_names = dict(IDS)


def placements_for(nlines, vlines_a, vlines_b, rnd, count, multi=None):
    """seeded placements built from the tag-line sequences the specification distinguishes"""
    out = []

    def rng2():
        i = rnd.randrange(0, max(1, nlines - 1))
        j = rnd.randrange(i + 1, nlines + 1)
        return i, j

    la = (rnd.choice(vlines_a) - 1) if vlines_a else rnd.randrange(0, nlines)
    lb = (rnd.choice(vlines_b) - 1) if vlines_b else rnd.randrange(0, nlines)
    i, j = rng2()
    cands = [
        ("wrap", [(0, "off", ()), (nlines, "on", ())]),
        ("wrap_open", [(0, "off", ())]),
        ("off_a", [(max(0, la - 1), "off", ("a",)), (min(nlines, la + 2), "on", ("a",))]),
        ("off_a_bare_on", [(max(0, la - 1), "off", ("a",)), (min(nlines, la + 2), "on", ())]),
        ("next_a", [(la, "next", ("a",))]),
        ("next_ab", [(la, "next", ("a",)), (la, "next", ("b",))]),
        ("next_b_at_b", [(lb, "next", ("b",))]),
        ("bare_then_off_a", [(i, "off", ()), (i, "off", ("a",)), (j, "on", ())]),
        ("bare_then_next_b", [(i, "off", ()), (min(j, i + 1), "next", ("b",)), (j, "on", ())]),
        ("off_ab_on_a", [(i, "off", ("a", "b")), ((i + j) // 2, "on", ("a",)), (j, "on", ("b",))]),
        ("off_a_on_b", [(i, "off", ("a",)), (j, "on", ("b",))]),
        ("bare_on_a_inside", [(i, "off", ()), ((i + j) // 2, "on", ("a",)), (j, "on", ())]),
        ("next_then_off", [(la, "next", ("a",)), (la, "off", ("b",)), (min(nlines, la + 3), "on", ("b",))]),
    ]
    rnd.shuffle(cands)
    first = [c for c in cands if c[0] == "wrap"]
    if multi is not None:
        lo, hi = multi  # a violation of rule a that spans several lines: tags on its interior lines only
        first.append(("next_inside", [(lo, "next", ("a",))]))
        first.append(("off_inside", [(lo, "off", ("a",)), (hi - 1, "on", ("a",))]))
    keep = first + [c for c in cands if c[0] != "wrap"]
    return keep[:count]


def report_records(job, first_id):
    global placement_names
    recs = []
    rid = first_id
    rnd = random.Random(job.get("seed", 1))
    for item in job["items"]:
        with open(item["path"], encoding="utf-8", errors="replace", newline="") as f:
            raw = f.read()
        if "vsg_" in raw or "\r" in raw:
            continue
        # tags planted inside a region a synthesis pragma switches off are plain ignored text, not comments: leave such files alone
        import variants
        import vlex

        if variants._frozen_file(vlex.lex(raw)):
            continue
        lines = raw.split("\n")
        if lines and lines[-1] == "":
            lines = lines[:-1]
        base = run_check("\n".join(lines) + "\n", ["-ap"], job["work"], "base.vhd")
        if base["status"] != "ok" or base["rejected"] or not base["viol"]:
            continue
        # the two rules the tags will name: the two rules with most violations on this file
        byrule = {}
        for v in base["viol"]:
            byrule.setdefault(v["rule"], []).append(v["line"])
        top = sorted(byrule, key=lambda r: (-len(byrule[r]), r))
        # prefer, for rule a, a rule with a violation that spans at least three lines (tags can then sit on interior lines)
        multis = sorted([v for v in base["viol"] if v["hi"] - v["lo"] >= 2], key=lambda v: (v["rule"], v["lo"]))
        multi = None
        if multis:
            mv = multis[rnd.randrange(len(multis))]
            multi = (mv["lo"], mv["hi"])
            top = [mv["rule"]] + [r for r in top if r != mv["rule"]]
        ra = top[0]
        rb = top[1] if len(top) > 1 else RB
        placement_names = {"a": ra, "b": rb}
        for pname, placement in placements_for(len(lines), byrule.get(ra, []), byrule.get(rb, []), rnd, job.get("per_file", 4), multi):
            tagged, neutral, kinds = plant(lines, placement)
            rt = run_check("\n".join(tagged) + "\n", ["-ap"], job["work"], "tagged.vhd")
            rn = run_check("\n".join(neutral) + "\n", ["-ap"], job["work"], "neutral.vhd")
            if rn["rejected"] or rt["rejected"] or rt["status"] != "ok" or rn["status"] != "ok":
                continue
            wrapped = pname == "wrap"
            fix_same = True
            if wrapped:
                rf = run_check("\n".join(tagged) + "\n", ["--fix"], job["work"], "tagged_fix.vhd")
                a = [x.rstrip() for x in rf["text"].split("\n")]
                b = [x.rstrip() for x in ("\n".join(tagged) + "\n").split("\n")]
                fix_same = a == b and rf["status"] == "ok"
                if not rt["viol"]:
                    pass

            def enc(vs):
                out = []
                for v in vs:
                    cls = "a" if v["rule"] == ra else "b" if v["rule"] == rb else "c"
                    out.append([cls, v["line"], v["lo"], v["hi"], v["rule"] + "|" + v["sol"]])
                return out

            rid += 1
            recs.append({"t": "report", "id": rid, "file": item["name"], "placement": pname, "ra": ra, "rb": rb, "kinds": kinds,
                         "vt": enc(rt["viol"]), "vn": enc(rn["viol"]), "wrapped": wrapped, "fixSame": fix_same,
                         "where": [[p, k, list(i)] for p, k, i in placement]})
    return recs


def main():
    job = json.load(open(sys.argv[1]))
    assert hooks.install()
    os.makedirs(job["work"], exist_ok=True)
    recs = []
    rid = job.get("first_id", 0)
    if job["mode"] == "stamps":
        idx = 0
        for n in range(1, job["maxlen"] + 1):
            for seq in itertools.product(KINDS, repeat=n):
                idx += 1
                if idx % job["nshards"] != job["shard"]:
                    continue
                rid += 1
                recs.append(stamps_record(rid, seq))
    else:
        recs = report_records(job, rid)
    with open(job["out"], "w") as f:
        json.dump({"recs": recs}, f, separators=(",", ":"))


if __name__ == "__main__":
    main()
