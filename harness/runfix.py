# -*- coding: utf-8 -*-
"""Drives the real VSG (apply_rules, exactly as the CLI does per file) over inputs with the hooks on and
writes the recorded executions as trace shards for TLC.

usage (internal):  runfix.py <jobfile.json>
  job = {"out": path.json, "items": [{"tid", "path" | "text", "name", "args": [...]}], "probe", "deep", "reparse", "rounds"}
Each shard file is ONE JSON object {"traces": [run...], "strings": {...}} (strings only for replay/diagnosis).
"""
import contextlib
import io
import json
import os
import shutil
import sys
import time
import traceback

os.environ.setdefault("VSG_VERIF_TRACE", "1")
sys.path.insert(0, os.path.dirname(os.path.abspath(__file__)))

import vsgenv  # noqa: E402
import hooks  # noqa: E402
import ruledocs  # noqa: E402
from abstraction import Interner  # noqa: E402

from vsg import apply_rules, cmd_line_args, config  # noqa: E402


_SKIP_N = [0]


def expand_skip(argv, workdir):
    """skip_phase is a key of the CONFIGURATION (there is no command-line option): the pseudo argument
    `--skip_phase 3 5` of the scenario descriptions is turned into a configuration file {"skip_phase": [3, 5]} that is
    appended to the -c list"""
    argv = list(argv)
    if "--skip_phase" not in argv:
        return argv
    i = argv.index("--skip_phase")
    j = i + 1
    phases = []
    while j < len(argv) and argv[j].lstrip("-").isdigit():
        phases.append(int(argv[j]))
        j += 1
    del argv[i:j]
    _SKIP_N[0] += 1
    p = os.path.join(workdir, "skip_phase_%d_%d.json" % (os.getpid(), _SKIP_N[0]))
    with open(p, "w") as f:
        json.dump({"skip_phase": phases}, f)
    if "-c" in argv:
        k = argv.index("-c") + 1
        while k < len(argv) and not argv[k].startswith("-"):
            k += 1
        argv.insert(k, p)
    else:
        argv += ["-c", p]
    return argv


def disk_lines(b):
    """the lines of a file as the operating system and the language define them: separated by CR LF, LF or CR - nothing else
    (decoded like VSG's reader: UTF-8, else ISO-8859-1)"""
    import re

    try:
        text = b.decode("utf-8")
    except UnicodeDecodeError:
        text = b.decode("ISO-8859-1")
    lines = re.split(r"\r\n|\r|\n", text)
    if lines and lines[-1] == "":
        lines.pop()
    return lines


def parse_args(argv):
    old = sys.argv
    sys.argv = ["vsg"] + list(argv)
    try:
        return cmd_line_args.parse_command_line_arguments()
    finally:
        sys.argv = old


def classes_table():
    docs = ruledocs.documented_rules()
    return dict((rid, {"cls": ruledocs.doc_class(v["tags"]), "tags": v["tags"], "phase": v["phase"], "mayDrop": v["may_drop_comments"]}) for rid, v in docs.items())


class RunTimeout(BaseException):
    pass


def _alarm(signum, frame):
    raise RunTimeout()


def fresh_check(T, item, tmp, interner, workdir):
    """C08, second sentence: the violations the --fix run reported at its end are those a fresh check of the written file
    reports.  The fresh check is a second, untraced apply_rules on the file as it now is, same configuration, no --fix."""
    vfix = None
    for e in reversed(T.ev):
        if e["e"] == "CheckViol":
            vfix = e["v"]
            e["v"], e["n"] = [], len(vfix)        # (the trace keeps the count; the violations travel in the FreshCheck event, interned)
            e.pop("table", None)
            break
    if vfix is None:
        return
    args = [a for a in item.get("args", []) if a not in ("--fix", "--backup")]
    T2 = hooks.Tracer(interner=interner, toi=False)
    T2.check_viol = True
    hooks.set_tracer(T2)
    try:
        cla2 = parse_args(["-f", tmp] + expand_skip(args, workdir))
        oConfig2 = config.New(cla2)
        apply_rules.apply_rules(cla2, oConfig2, (0, tmp))
    finally:
        hooks.set_tracer(T)
    vfresh = None
    for e in reversed(T2.ev):
        if e["e"] == "CheckViol":
            vfresh = e["v"]
            break
    if vfresh is None:
        return      # the written text is rejected on re-read: that is C08_Accepted's finding (Reparse event), there is no second report to compare

    def key(v):
        return [interner.s(v["rule"]), int(v["line"]), interner.s(v["sol"])]

    a, b = [key(v) for v in vfix], [key(v) for v in vfresh]
    sa, sb = set(map(tuple, a)), set(map(tuple, b))
    T.emit({"e": "FreshCheck", "ok": True, "vfix": a, "vfresh": b, "onlyFix": [list(x) for x in sorted(sa - sb)][:5], "onlyFresh": [list(x) for x in sorted(sb - sa)][:5]})


def run_item(item, job, interner, classes, workdir):
    """one traced execution; returns the run record.  A run that does not return within job["timeout"] seconds (default
    300; the slowest fixture takes about 10) is interrupted and recorded as a hang (C19)."""
    import signal

    signal.signal(signal.SIGALRM, _alarm)
    signal.alarm(int(job.get("timeout", 300)))
    T = hooks.set_tracer(hooks.Tracer(interner=interner, probe=job.get("probe", False), deep=job.get("deep", False), classes=classes))
    T.reparse = job.get("reparse", False)
    name = item.get("name") or os.path.basename(item["path"])
    tmp = os.path.join(workdir, "t%d_%s" % (item["tid"], os.path.basename(name.split("#")[0])))
    if "text" in item:
        with open(tmp, "w", encoding="utf-8", newline="") as f:
            f.write(item["text"])
    else:
        shutil.copyfile(item["path"], tmp)
    rec = {"tid": item["tid"], "file": name, "args": item.get("args", []), "tag": item.get("tag", ""), "ev": T.ev, "status": "", "texts": [], "rounds": []}
    t0 = time.time()
    out, err = io.StringIO(), io.StringIO()
    try:
        with contextlib.redirect_stdout(out), contextlib.redirect_stderr(err):
            cla = parse_args(["-f", tmp] + expand_skip(item.get("args", []), workdir))
            oConfig = config.New(cla)
            rounds = int(item["rounds"]) if item.get("rounds") else (int(job.get("rounds", 1)) if item.get("tag", "default") == "default" else 1)
            res = None
            with open(tmp, encoding="utf-8", errors="replace", newline="") as f:
                last_text = f.read()
            for k in range(rounds):
                if k > 0:
                    # a further --fix of a text the previous --fix left untouched is the same deterministic run again
                    with open(tmp, encoding="utf-8", errors="replace", newline="") as f:
                        now = f.read()
                    if now == last_text:
                        rec["texts"].append(rec["texts"][-1])
                        continue
                    last_text = now
                    T.emit({"e": "Round", "k": k})
                st0 = os.stat(tmp)
                with open(tmp, "rb") as f:
                    b0 = f.read()
                T.disk_lines = disk_lines(b0)
                nfix0 = T.stats.get("nfix", 0)
                rd = {"nfix": -1, "ok": False, "sameInode": True, "sameMtime": True, "sameBytes": True}
                rec["rounds"].append(rd)
                T.check_viol = bool(item.get("fresh")) and k == 0
                res = apply_rules.apply_rules(cla, oConfig, (0, tmp))
                T.check_viol = False
                if item.get("fresh") and k == 0 and "--fix" in item.get("args", []):
                    fresh_check(T, item, tmp, interner, workdir)
                st1 = os.stat(tmp)
                with open(tmp, "rb") as f:
                    b1 = f.read()
                rd.update({"nfix": T.stats.get("nfix", 0) - nfix0, "ok": "--fix" in item.get("args", []), "sameInode": st0.st_ino == st1.st_ino,
                           "sameMtime": st0.st_mtime_ns == st1.st_mtime_ns, "sameBytes": b0 == b1})
                if job.get("keep_text", False) or rounds > 1:
                    with open(tmp, encoding="utf-8", errors="replace", newline="") as f:
                        rec["texts"].append(interner.s(f.read()))
            rec["status"] = "ok"
            rec["exit"] = bool(res[0]) if res else False
            rec["stderr"] = (res[4] or "")[:300] if res else ""
            if "Invalid configuration" in rec["stderr"]:
                # every configuration of this family is meant to be valid: a rejected one means the scenario explored nothing
                rec["status"] = "machinery"
                rec["tb"] = rec["stderr"]
    except SystemExit as e:
        rec["status"] = "exit"
        rec["exit"] = bool(e.code)
        if "usage:" in err.getvalue() or "usage:" in out.getvalue():
            rec["status"] = "machinery"       # the scenario's arguments were not accepted: the harness asked for something VSG has no option for
            rec["tb"] = (err.getvalue() + out.getvalue())[-600:]
    except RunTimeout:
        rec["status"] = "hang"
        hooks.set_tracer(T)
        T.muted = 0
        T.cur = None
        T.emit({"e": "RunHang", "where": traceback.format_exc()[-600:]})
    except Exception as e:  # a crash of VSG itself (C19); recorded, never hidden
        rec["status"] = "crash"
        rec["crash"] = type(e).__name__ + ": " + str(e)[:200]
        rec["tb"] = traceback.format_exc(limit=6)[-1500:]
        T.emit({"e": "RunCrash", "exc": type(e).__name__})
    finally:
        signal.alarm(0)
        for p in (tmp, tmp + ".tmp", tmp + ".bak"):
            try:
                os.remove(p)
            except OSError:
                pass
    T.emit({"e": "End"})
    rec["wall"] = round(time.time() - t0, 3)
    rec["stats"] = T.stats
    hooks.set_tracer(None)
    return rec


def main():
    job = json.load(open(sys.argv[1]))
    assert hooks.install(), "hooks not enabled"
    interner = Interner()
    classes = classes_table()
    workdir = job["work"]
    os.makedirs(workdir, exist_ok=True)
    runs = []
    for item in job["items"]:
        try:
            runs.append(run_item(item, job, interner, classes, workdir))
        except Exception:
            runs.append({"tid": item["tid"], "file": item.get("name", item.get("path")), "status": "machinery", "tb": traceback.format_exc(), "ev": [{"e": "End"}], "texts": [], "rounds": []})
    with open(job["out"], "w") as f:
        json.dump({"traces": runs}, f, separators=(",", ":"))
    with open(job["out"] + ".strings", "w") as f:
        json.dump(interner.rev, f)


if __name__ == "__main__":
    main()
