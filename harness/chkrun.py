# -*- coding: utf-8 -*-
"""Drivers of the check / report family (C06 C13 C14 C20): scenarios run through the real apply_rules / main() with
hooks on, recorded for TLC (spec/CheckTrace.tla).

usage (internal): chkrun.py <job.json>   job = {"out", "work", "mode", "items": [...], "seed"}
"""
import contextlib
import io
import json
import os
import random
import re
import sys
import traceback
import xml.etree.ElementTree as ET

os.environ.setdefault("VSG_VERIF_TRACE", "1")
sys.path.insert(0, os.path.dirname(os.path.abspath(__file__)))
import vsgenv  # noqa: E402,F401
import hooks  # noqa: E402
from abstraction import Interner  # noqa: E402
from runfix import parse_args, expand_skip  # noqa: E402

from vsg import apply_rules, config  # noqa: E402

INT = Interner()


class RunTimeout(BaseException):
    pass


def _alarm(signum, frame):
    raise RunTimeout()


BAD = []      # runs of undamaged inputs that crashed or hung (any mode): reported as C19 records


def run(text, args, work, name="t.vhd", deep=False, shuffle=None, repeat=False, deep_ends=False, timeout=300, cfg_deep=False):
    """one apply_rules execution on a scratch copy; returns observations.  timeout (s): a run that does not return is
    interrupted (SIGALRM) and reported with status "hang" (C19: no run fails to terminate)"""
    import signal

    if timeout:
        signal.signal(signal.SIGALRM, _alarm)
        signal.alarm(int(timeout))
    T = hooks.set_tracer(hooks.Tracer(toi=False, deep=deep))
    T.deep_ends = deep_ends
    T.cfg_deep = cfg_deep          # the digest of every rule's configuration around every analysis (expensive: only when the ends differ)
    T.check_viol = True
    T.check_table = True
    T.shuffle = shuffle
    T.repeat_check = repeat
    tmp = os.path.join(work, name)
    with open(tmp, "w", encoding="utf-8", newline="") as f:
        f.write(text)
    st0 = os.stat(tmp)
    out = io.StringIO()
    obs = {"status": "ok", "exit": None}
    try:
        with contextlib.redirect_stdout(out), contextlib.redirect_stderr(out):
            cla = parse_args(["-f", tmp] + expand_skip(args, work))
            oConfig = config.New(cla)
            res = apply_rules.apply_rules(cla, oConfig, (0, tmp))
            obs["exit"] = bool(res[0])
            obs["diag"] = str(res[4] or "")
    except SystemExit as e:
        obs["status"] = "exit"
        obs["exit"] = bool(e.code)
        if "usage:" in out.getvalue():
            raise RuntimeError("scenario arguments rejected by VSG's argument parser: %s\n%s" % (args, out.getvalue()[-300:]))
    except RunTimeout:
        obs["status"] = "hang"
        full = traceback.format_exc()
        obs["in_classifier"] = "_processFile" in full or "design_file" in full
        obs["tb"] = full[-1500:]
    except Exception as e:
        obs["status"] = "crash:" + type(e).__name__
        obs["tb"] = traceback.format_exc()[-1500:]
    finally:
        if timeout:
            signal.alarm(0)
    with open(tmp, encoding="utf-8", newline="", errors="replace") as f:
        obs["text"] = f.read()
    st1 = os.stat(tmp)
    obs["untouched"] = st0.st_ino == st1.st_ino and st0.st_mtime_ns == st1.st_mtime_ns
    for p in (tmp, tmp + ".tmp", tmp + ".bak"):
        try:
            os.remove(p)
        except OSError:
            pass
    obs["rejected"] = any(e["e"] == "Rejected" for e in T.ev)
    obs["viol"] = None
    obs["viols"] = []
    for e in T.ev:
        if e["e"] == "CheckViol":
            obs["viols"].append(e["v"])
            obs["viol"] = e["v"]
            obs["table"] = e.get("table")
        elif e["e"] == "CheckEnd":
            obs["last"], obs["ran"], obs["violflag"] = e["last"], e["ran"], e["viol"]
    obs["impure"] = [[T.interner.text(e["rule"]), e.get("impure", "")] for e in T.ev if e["e"] == "Analyze" and not e["pure"]]
    obs["impure_ends"] = [e["what"] for e in T.ev if e["e"] == "CheckImpure"]
    obs["fixes"] = [(T.interner.text(e["rule"]), sorted(set(w.get("line", 0) for w in e["win"]))) for e in T.ev if e["e"] == "Fix"]
    obs["crashes"] = [e for e in T.ev if e["e"] == "Crash"]
    obs["stdout"] = out.getvalue()
    hooks.set_tracer(None)
    if obs["status"] == "hang" or obs["status"].startswith("crash"):
        BAD.append({"args": [a for a in args if not a.startswith("/")], "status": obs["status"], "tb": obs.get("tb", "")[-400:], "site": site_of(obs.get("tb", "")),
                    "crashes": [hooks_name(c) for c in obs["crashes"]][:3]})
    return obs


def vt(viol, ridmap):
    """violations as [rid, line, solId, phase of the rule]"""
    return [[ridmap(v["rule"]), v["line"], INT.s(str(v["sol"])), v["phase"]] for v in viol]


class RuleIds:
    def __init__(self):
        self.d = {}

    def __call__(self, name):
        if name not in self.d:
            self.d[name] = len(self.d) + 1
        return self.d[name]


def table_rows(table, rid, viol=None):
    """[rid, phase, sub, err, dis, nv]; nv = number of violations the rule's analysis finds (from an --all_phases run)"""
    cnt = {}
    for v in viol or []:
        cnt[v["rule"]] = cnt.get(v["rule"], 0) + 1
    return [[rid(r["rule"]), r["phase"], r["sub"], 1 if r["err"] else 0, 1 if r["dis"] else 0, cnt.get(r["rule"], 0)] for r in table]


def read(path):
    with open(path, encoding="utf-8", errors="replace", newline="") as f:
        return f.read()


def write_cfg(work, name, d):
    p = os.path.join(work, name)
    with open(p, "w") as f:
        json.dump(d, f)
    return p


# ------------------------------------------------------------------------------------------------- C13 gating
def gating_records(job, nid):
    recs = []
    rnd = random.Random(job["seed"])
    work = job["work"]
    for item in job["items"]:
        text = read(item["path"])
        base = run(text, ["-ap"], work)
        if base["status"] != "ok" or base["rejected"] or base["viol"] is None:
            continue
        reporting = sorted(set(v["rule"] for v in base["viol"]))
        phases = sorted(set(v["phase"] for v in base["viol"]))
        cfgs = [("default", None)]
        if reporting:
            r1 = rnd.choice(reporting)
            cfgs.append(("phase7:" + r1, {"rule": {r1: {"phase": 7}}}))
            cfgs.append(("phase1:" + r1, {"rule": {r1: {"phase": 1}}}))
            first = phases[0]
            warn = dict((r, {"severity": "Warning"}) for r in reporting if any(v["rule"] == r and v["phase"] == first for v in base["viol"]))
            cfgs.append(("warn-first-phase", {"rule": warn}))
        for cname, cfg in cfgs[: job.get("cfgs", 4)]:
            cargs = []
            if cfg is not None:
                cargs = ["-c", write_cfg(work, "cfg.json", cfg)]
            b = run(text, ["-ap"] + cargs, work)
            if b["status"] != "ok" or b["viol"] is None:
                continue
            rid = RuleIds()
            T = table_rows(b["table"], rid, b["viol"])
            V = vt(b["viol"], rid)
            ph = sorted(set(v["phase"] for v in b["viol"])) or [1]
            skips = [[], [ph[0]], [1], [7], [rnd.choice(range(1, 8))], sorted(rnd.sample(range(1, 8), 3))]
            runs = []
            for ap in (True, False):
                for sk in skips:
                    if ap and not sk:
                        o = b
                    else:
                        a = (["-ap"] if ap else []) + cargs + (["--skip_phase"] + [str(x) for x in sk] if sk else [])
                        o = run(text, a, work)
                    if o["status"] != "ok" or o["viol"] is None:
                        continue
                    runs.append({"ap": ap, "skip": sk, "reported": vt(o["viol"], rid), "last": o["last"], "ran": o["ran"], "status": bool(o["exit"])})
            nid += 1
            recs.append({"t": "gating", "id": nid, "file": item["name"], "cfg": cname, "T": T, "V": V, "runs": runs,
                         "names": dict((str(v), k) for k, v in rid.d.items() if any(x[0] == v for x in V))})
    return recs


# ------------------------------------------------------------------------------------------------- C13 fix_phase / skip equivalence
def fixphase_records(job, nid):
    recs = []
    rnd = random.Random(job["seed"])
    work = job["work"]
    for item in job["items"]:
        text = read(item["path"])
        base = run(text, ["-ap"], work)
        if base["status"] != "ok" or base["rejected"] or base["viol"] is None:
            continue
        table = base["table"]
        for n in sorted(set([rnd.choice([1, 2, 3]), rnd.choice([4, 5, 6])])):
            skip = [] if rnd.random() < 0.5 else [rnd.choice([p for p in range(2, 8)])]
            a = run(text, ["--fix", "--fix_phase", str(n)] + (["--skip_phase"] + [str(x) for x in skip] if skip else []), work)
            dis = dict((r["rule"], {"disable": True}) for r in table if (r["phase"] > n or r["phase"] in skip) and not r["dis"])
            cfgp = write_cfg(work, "cfgdis.json", {"rule": dis})
            b = run(text, ["--fix", "-c", cfgp], work)
            if a["status"] != "ok" or b["status"] != "ok":
                continue
            nid += 1
            # only the texts are comparable: the reports differ by construction (run B has the later phases disabled for checking too)
            recs.append({"t": "equiv", "id": nid, "clause": "C13_FixPhaseMeansDisabled", "file": item["name"], "cfg": "fix_phase=%d skip=%s" % (n, skip),
                         "a": {"text": INT.s(a["text"]), "reported": [], "status": True}, "b": {"text": INT.s(b["text"]), "reported": [], "status": True},
                         "fixed_rules_a": sorted(set(r for r, _ in a["fixes"]))[:30]})
    return recs


# ------------------------------------------------------------------------------------------------- C06 purity
def purity_records(job, nid):
    recs = []
    rnd = random.Random(job["seed"])
    work = job["work"]
    bargs = ["-ap"]
    if job.get("base_cfg"):
        bargs += ["-c", write_cfg(work, "cfgBase.json", job["base_cfg"])]
    for item in job["items"]:
        text = read(item["path"])
        base = run(text, bargs, work, deep_ends=True, repeat=True)
        if base["status"] != "ok" or base["rejected"] or base["viol"] is None:
            continue
        if base["impure_ends"] and not base["impure"]:
            # some analysis changed a token attribute: find out which rule (digest around every analysis; slow, rare)
            slow = run(text, bargs, work, deep=True, cfg_deep=any(w.startswith("configuration of rule") for w in base["impure_ends"]))
            # (a rule that normalises its OWN options while analysing - 'yes' -> True - changes nobody else's verdict: the
            # digest around each analysis leaves the analysing rule's own configuration out)
            own_only = all(w.startswith("configuration of rule") for w in base["impure_ends"]) and not slow["impure"]
            base["impure"] = slow["impure"] or ([] if own_only else [["?", base["impure_ends"][0]]])
        rid = RuleIds()
        T = table_rows(base["table"], rid, base["viol"])
        V = vt(base["viol"], rid)
        V2 = vt(base["viols"][1], rid) if len(base["viols"]) > 1 else V
        perms = []
        for k in range(job.get("perms", 2)):
            o = run(text, bargs, work, shuffle=job["seed"] * 7 + k)
            if o["status"] == "ok" and o["viol"] is not None:
                perms.append(vt(o["viol"], rid))
        reporting = sorted(set(v["rule"] for v in base["viol"]))
        enabled = [r["rule"] for r in base["table"] if not r["dis"]]
        subsets = []
        choices = []
        if reporting:
            choices.append([rnd.choice(reporting)])
            choices.append(rnd.sample(reporting, max(1, len(reporting) // 2)))
        choices.append(rnd.sample(enabled, len(enabled) // 4))
        choices.append(rnd.sample(enabled, len(enabled) // 2))
        if reporting:
            keep = rnd.choice(reporting)
            choices.append([r for r in enabled if r != keep])
        for D in choices[: job.get("subsets", 5)]:
            cfgp = write_cfg(work, "cfgD.json", {"rule": dict((r, {"disable": True}) for r in D)})
            o = run(text, bargs + (["-c", cfgp] if "-c" not in bargs else [cfgp]), work)
            if o["status"] != "ok" or o["viol"] is None:
                continue
            subsets.append({"D": [rid(r) for r in D], "V": vt(o["viol"], rid)})
        nid += 1
        recs.append({"t": "purity", "id": nid, "file": item["name"], "T": T, "V": V, "V2": V2, "perms": perms, "subsets": subsets,
                     "impure": [[rid(r), w] for r, w in base["impure"]], "textSame": base["text"] == text and base["untouched"],
                     "names": dict((str(v), k) for k, v in rid.d.items() if any(x[0] == v for x in V)), "impure_names": base["impure"][:5], "cfgname": job.get("cfgname", "")})
    return recs


# ------------------------------------------------------------------------------------------------- C20 fix_only
LINE_LOCAL = ("whitespace", "case", "indent", "alignment")


def changed_lines(a, b):
    """lines that differ, not counting a line whose only change is the removal of its trailing whitespace
    (the file-wide clean-up that accompanies any write-back)"""
    la = a.split("\n")
    lb = b.split("\n")
    if len(la) != len(lb):
        return None
    return [i + 1 for i, (x, y) in enumerate(zip(la, lb)) if x != y and y != x.rstrip()]


def fixonly_records(job, nid):
    recs = []
    rnd = random.Random(job["seed"])
    work = job["work"]
    for item in job["items"]:
        text = read(item["path"])
        plain = run(text, ["--fix"], work)
        if plain["status"] != "ok" or plain["rejected"]:
            continue
        fixers = plain["fixes"]  # (rule, lines)
        if not fixers:
            continue
        base = run(text, ["-ap"], work)
        table = dict((r["rule"], r) for r in (base.get("table") or []))
        allrules = sorted(table)
        sels = [("none", {}), ("all", dict((r, ["all"]) for r in allrules))]
        r1, l1 = rnd.choice(fixers)
        sels.append(("rule", {r1: ["all"]}))
        # a line-local rule (phase 2, 4, 5 non structural or 6) with a subset of its reported lines
        cand = [(r, ls) for r, ls in fixers if r in table and table[r]["phase"] in (2, 4, 5, 6) and table[r]["cls"] in ("WS", "CASE")]
        if cand:
            r2, l2 = rnd.choice(cand)
            rep = sorted(set(v["line"] for v in (base["viol"] or []) if v["rule"] == r2)) or l2
            sub = sorted(rnd.sample(rep, max(1, len(rep) // 2)))
            extra = sorted(set(sub + [rnd.randrange(1, max(2, text.count("\n")))]))
            sels.append(("lines", {r2: extra}))
        if len(fixers) > 1:
            ra, rb = rnd.sample([r for r, _ in fixers], 2)
            sels.append(("rule", {ra: ["all"], rb: ["all"]}))
        for kind, sel in sels:
            fo = write_cfg(work, "fixonly.json", {"fix": {"rule": sel}})
            o = run(text, ["--fix", "--fix_only", fo], work)
            if o["status"] != "ok":
                nid += 1
                recs.append({"t": "fixonly", "id": nid, "file": item["name"], "kind": "crash", "text": 0, "textPlain": 1, "textOrig": 2, "untouched": False, "fixedRules": [], "listedRules": [],
                             "fixedLines": [], "listedLines": [], "lineLocal": False, "changedLines": [], "reportedLines": [], "sel": str(sel)[:200], "status": o["status"]})
                continue
            rid = RuleIds()
            fixed_rules = sorted(set(rid(r) for r, _ in o["fixes"]))
            listed = sorted(rid(r) for r in sel)
            rec = {"t": "fixonly", "id": 0, "file": item["name"], "kind": kind, "text": INT.s(o["text"]), "textPlain": INT.s(plain["text"]), "textOrig": INT.s(text),
                   "untouched": o["untouched"], "fixedRules": fixed_rules, "listedRules": listed, "fixedLines": [], "listedLines": [], "lineLocal": False, "changedLines": [],
                   "reportedLines": [], "sel": json.dumps(sel)[:300], "status": "ok"}
            if kind == "lines":
                (r2, lines), = sel.items()
                rec["listedLines"] = lines
                rec["fixedLines"] = sorted(set(l for r, ls in o["fixes"] if r == r2 for l in ls))
                cl = changed_lines(text, o["text"])
                # "line-local": every violation of the rule on this file sits on one line (an alignment over several lines is not)
                single = all(v["lo"] == v["hi"] == v["line"] for v in (base["viol"] or []) if v["rule"] == r2)
                rec["lineLocal"] = cl is not None and single
                rec["changedLines"] = cl or []
                rec["reportedLines"] = sorted(set(v["line"] for v in (base["viol"] or []) if v["rule"] == r2))
                rec["rule"] = r2
            nid += 1
            rec["id"] = nid
            recs.append(rec)
    return recs


# ------------------------------------------------------------------------------------------------- C14 formats
_ROW = re.compile(r"^  (\S+)\s+\| (.{10}) \|\s*(\d+) \| (.*)$")
_SYN = re.compile(r"^(ERROR|WARNING): (.*?)\((\d+)\)([a-z_]+_[0-9]{3}) -- (.*)$")
_SUM = re.compile(r"^File: (.*?) (OK|ERROR) \((\d+) rules checked\)(.*)$")


def parse_stdout_vsg(text):
    """-> (tuples [file, rule, line, sol, sev], counts_ok)"""
    out = []
    cur = None
    total = None
    sev = {}
    counts_ok = True
    per_file = {}
    for line in text.split("\n"):
        if line.startswith("File:  "):
            if cur is not None:
                per_file[cur] = (total, sev)
            cur = line[7:]
            total, sev = None, {}
            continue
        m = re.match(r"^Total Violations:\s+(\d+)", line)
        if m:
            total = int(m.group(1))
            continue
        m = re.match(r"^  (\S+)\s+:\s+(\d+)$", line)
        if m and cur is not None:
            sev[m.group(1)] = int(m.group(2))
            continue
        m = _ROW.match(line)
        if m and cur is not None and m.group(1) != "Rule":
            out.append([cur, m.group(1), int(m.group(3)), m.group(4), m.group(2).strip()])
    if cur is not None:
        per_file[cur] = (total, sev)
    for f, (tot, sv) in per_file.items():
        rows = [x for x in out if x[0] == f]
        if tot is not None and tot != len(rows):
            counts_ok = False
        for name, c in sv.items():
            if c != len([x for x in rows if x[4] == name]):
                counts_ok = False
    return out, counts_ok


def formats_records(job, nid):
    """each item: {"files": [paths], "cfg": dict|None, "of": fmt, "extra": [...]} run through vsg.__main__.main()"""
    from vsg import __main__ as vmain

    recs = []
    work = job["work"]
    for item in job["items"]:
        d = os.path.join(work, "f%d" % item["k"])
        os.makedirs(d, exist_ok=True)
        files = []
        rel = item.get("pathstyle") == "rel"
        for i, p in enumerate(item["files"]):
            q = os.path.join(d, "in%d_%s" % (i, os.path.basename(p)))
            if rel:
                # the files are named relative to the working directory: through the parent directory, inside a dot-directory
                sub = [".gen", os.path.join("..", os.path.basename(d))][i % 2]
                os.makedirs(os.path.join(d, sub), exist_ok=True)
                q = os.path.join(sub, "in%d_%s" % (i, os.path.basename(p)))
            with open(os.path.join(d, q) if rel else q, "w", encoding="utf-8", newline="") as f:
                f.write(read(p) if os.path.exists(p) else p)
            files.append(q)
        argv = ["vsg", "-f"] + files + ["-p", "1", "-of", item["of"], "--json", os.path.join(d, "o.json"), "--junit", os.path.join(d, "o.xml"), "--quality_report", os.path.join(d, "q.json")]
        if item.get("ap"):
            argv.append("-ap")
        if item.get("cfg") is not None:
            argv += ["-c", write_cfg(d, "cfg.json", item["cfg"])]
        T = hooks.set_tracer(hooks.Tracer(toi=False))
        T.check_viol = True
        T.check_table = False
        out, err = io.StringIO(), io.StringIO()
        old = sys.argv
        sys.argv = argv
        code = None
        status = "ok"
        cwd0 = os.getcwd()
        try:
            if rel:
                os.chdir(d)
            with contextlib.redirect_stdout(out), contextlib.redirect_stderr(err):
                vmain.main()
        except SystemExit as e:
            code = e.code
        except Exception as e:
            status = "crash:" + type(e).__name__ + ":" + str(e)[:100]
        finally:
            sys.argv = old
            os.chdir(cwd0)
        exitc = 0 if code in (None, 0, False) else 1
        if status != "ok":
            exitc = 1  # an uncaught exception ends the real process with a traceback and status 1
        # ground truth: the violations standing on every file's rules when it was reported
        truth = []
        seen_files = []
        fi = -1
        proc_err = False
        for e in T.ev:
            if e["e"] in ("Parse", "Rejected"):
                fi += 1
                if e["e"] == "Rejected":
                    proc_err = True
            elif e["e"] == "CheckViol":
                fn = files[fi] if 0 <= fi < len(files) else "?"
                seen_files.append(fn)
                for v in e["v"]:
                    truth.append([fn, v["rule"], v["line"], str(v["sol"]), v["sev"], 1 if v["err"] else 0])
        hooks.set_tracer(None)
        so, se = out.getvalue(), err.getvalue()
        if "Error while processing" in se or "ERROR:" in so:
            proc_err = True
        rec = {"t": "formats", "id": 0, "of": item["of"], "cfgname": item.get("cfgname", ""), "files": files, "status": status, "exit": exitc, "procErr": proc_err,
               "has": {"stdout": False, "syntastic": False, "summary": False, "json": False, "junit": False, "quality": False},
               "stdout": [], "stdoutCountsOk": True, "syntastic": [], "summary": [], "json": [], "junit": [], "junitCountsOk": True, "quality": []}

        def tup(l):
            return [[INT.s(str(x)) if isinstance(x, str) else x for x in t] for t in l]

        rec["truth"] = tup(truth)
        if item["of"] == "vsg":
            rows, ok = parse_stdout_vsg(so)
            rec["has"]["stdout"] = True
            rec["stdout"] = tup(rows)
            rec["stdoutCountsOk"] = ok
        elif item["of"] == "syntastic":
            rows = []
            for line in so.split("\n"):
                m = _SYN.match(line)
                if m:
                    rows.append([m.group(2), m.group(4), int(m.group(3)), m.group(5), 1 if m.group(1) == "ERROR" else 0])
            rec["has"]["syntastic"] = True
            rec["syntastic"] = tup(rows)
        else:
            rows = []
            for line in (so + "\n" + se).split("\n"):
                m = _SUM.match(line)
                if m:
                    mm = re.search(r"\[Error: (\d+)\]", m.group(4))
                    rows.append([m.group(1), int(mm.group(1)) if mm else -1, 1 if m.group(2) == "ERROR" else 0])
            rec["has"]["summary"] = True
            rec["summary"] = tup(rows)
            rec["filesI"] = [INT.s(f) for f in seen_files]
        rec["cmdFiles"] = [INT.s(f) for f in files]
        rec["jsonFiles"], rec["junitFiles"] = [], []
        rec["stopped"] = "Invalid configuration" in se or "could not be found" in se or status != "ok"
        try:
            dj = json.load(open(os.path.join(d, "o.json")))
            rows = []
            rec["jsonFiles"] = [INT.s(fe.get("file_path", "?")) for fe in dj["files"]]
            for fe in dj["files"]:
                for v in fe.get("violations", []):
                    rows.append([fe.get("file_path", "?"), v["rule"], int(v["linenumber"]), str(v["solution"]), v["severity"]])
            rec["has"]["json"] = True
            rec["json"] = tup(rows)
        except Exception:
            pass
        try:
            root = ET.parse(os.path.join(d, "o.xml")).getroot()
            rows = []
            ok = True
            rec["junitFiles"] = [INT.s(tc.get("name")) for tc in root.iter("testcase")]
            for tc in root.iter("testcase"):
                fn = tc.get("name")
                for fl in tc.iter("failure"):
                    for line in (fl.text or "").split("\n"):
                        m = re.match(r"^\s*([a-z_]+_[0-9]{3}): (\d+) : (.*)$", line)
                        if m:
                            rows.append([fn, m.group(1), int(m.group(2)), m.group(3)])
            ts = root if root.tag == "testsuite" else root.find("testsuite")
            if ts is not None and ts.get("failures") is not None:
                nfail = len([tc for tc in root.iter("testcase") if tc.find("failure") is not None])
                ok = int(ts.get("failures")) == nfail
            rec["has"]["junit"] = True
            rec["junit"] = tup(rows)
            rec["junitCountsOk"] = ok
        except Exception:
            pass
        try:
            q = json.load(open(os.path.join(d, "q.json")))
            rows = []
            for e in q:
                rule, sol = e["description"].split(" :: ", 1)
                rows.append([e["location"]["path"], rule, int(e["location"]["lines"]["begin"]), sol, 1 if e["severity"] == "critical" else 0])
            rec["has"]["quality"] = True
            rec["quality"] = tup(rows)
        except Exception:
            pass
        rec["files"] = [INT.s(f) for f in seen_files] if item["of"] == "summary" else []
        nid += 1
        rec["id"] = nid
        rec["stdout_tail"] = (so + se)[-400:]
        recs.append(rec)
    return recs


# ------------------------------------------------------------------------------------------------- C19 robustness on damaged inputs
def mutilate(text, rnd):
    """a damaged copy of an accepted file: token deleted / duplicated, text truncated, line removed, bracket flipped"""
    import vlex

    toks = vlex.lex(text)
    code = [i for i, (k, _) in enumerate(toks) if k not in ("ws", "nl", "cmt", "dcmt", "pre")]
    if not code:
        return "truncate", text[: len(text) // 2]
    how = rnd.choice(["delete", "delete", "duplicate", "truncate", "dropline", "swap", "unclosed"])
    if how == "delete":
        i = rnd.choice(code)
        return how, vlex.unlex(toks[:i] + toks[i + 1:])
    if how == "duplicate":
        i = rnd.choice(code)
        return how, vlex.unlex(toks[: i + 1] + [("ws", " ")] + toks[i:])
    if how == "truncate":
        i = rnd.choice(code)
        return how, vlex.unlex(toks[:i])
    if how == "dropline":
        lines = text.split("\n")
        j = rnd.randrange(len(lines))
        return how, "\n".join(lines[:j] + lines[j + 1:])
    if how == "swap":
        if len(code) < 2:
            return "truncate", text[: len(text) // 2]
        a = rnd.randrange(len(code) - 1)
        i, j = code[a], code[a + 1]
        t2 = list(toks)
        t2[i], t2[j] = t2[j], t2[i]
        return how, vlex.unlex(t2)
    i = rnd.choice(code)
    return how, vlex.unlex(toks[:i] + [("sym", "(")] + toks[i:])


def robust_records(job, nid):
    recs = []
    rnd = random.Random(job["seed"])
    work = job["work"]
    for item in job["items"]:
        text = read(item["path"])
        for k in range(job.get("per_file", 4)):
            how, bad = mutilate(text, rnd)
            o = run(bad, ["--fix"] if k % 2 else ["-ap"], work, timeout=job.get("timeout", 30))
            out = o["stdout"] + o.get("diag", "")
            located = bool(re.search(r"Line\s+\d+", out))      # "one-line-located": the message names the line
            nid += 1
            recs.append({"t": "robust", "id": nid, "file": item["name"], "how": how, "mode": "fix" if k % 2 else "check", "outcome": "hang" if o["status"] == "hang" else ("crash" if o["status"].startswith("crash") else ("rejected" if o["rejected"] else "accepted")),
                         "status": o["status"], "located": bool(located), "exit": bool(o["exit"]), "rule_crashes": [hooks_name(c) for c in o["crashes"]][:3], "site": ("vhdlFile/classifier" if o["status"] == "hang" and o.get("in_classifier") else site_of(o.get("tb", ""))), "tail": out[-200:], "tb": o.get("tb", "")[-300:]})
    return recs


def site_of(tb):
    """innermost frame inside vsg/ of a traceback text -> 'file.py:function' (the call site that crashed / looped)"""
    m = re.findall(r'File "[^"]*/vsg/([^"]+)", line \d+, in (\w+)', tb or "")
    return "%s:%s" % (m[-1][0], m[-1][1]) if m else ""


def hooks_name(c):
    return "%s:%s" % (c.get("where"), c.get("exc"))


def main():
    job = json.load(open(sys.argv[1]))
    assert hooks.install()
    os.makedirs(job["work"], exist_ok=True)
    nid = job.get("first_id", 0)
    fn = {"gating": gating_records, "fixphase": fixphase_records, "purity": purity_records, "fixonly": fixonly_records, "formats": formats_records, "robust": robust_records}[job["mode"]]
    try:
        recs = fn(job, nid)
        if job["mode"] != "robust":
            # a crash or hang on an undamaged input, in whatever scenario it happened
            for k, b in enumerate(BAD):
                recs.append({"t": "robust", "id": nid + 900000 + k, "file": "scenario:" + job["mode"], "how": "none", "mode": " ".join(b["args"])[:60], "outcome": "hang" if b["status"] == "hang" else "crash",
                             "status": b["status"], "located": False, "exit": True, "rule_crashes": b["crashes"], "site": b["site"], "tail": "", "tb": b["tb"]})
    except Exception:
        recs = [{"t": "machinery", "id": nid + 1, "tb": traceback.format_exc()}]
    with open(job["out"], "w") as f:
        json.dump({"recs": recs}, f, separators=(",", ":"))


if __name__ == "__main__":
    main()
