# -*- coding: utf-8 -*-
"""C05 - token classification does not depend on layout, comments or letter case.
design  : TLC over spec/Relayout.tla (gaps / case actions never change roles; layout-sensitive classifier mutant).
binding : every base fixture x every re-layout recipe of harness/variants.py through the real parser; TLC
          (spec/RelayoutTrace.tla) requires acceptance and equal role sequences (first differing position reported)."""
import json
import os
import shutil
import time

import common
import corpus
import findings as F
import orchestrate
import tlc
from tagfam import _run_jobs

FAMILY_FILES = ["harness/gendesign.py", "harness/relfam.py", "harness/relrun.py", "harness/variants.py", "harness/vlex.py", "harness/tagfam.py", "spec/Relayout.tla", "spec/RelayoutTrace.tla", "spec/RelayoutTrace.cfg",
                "spec/MC_Relayout.cfg", "spec/Mutant_Relayout_Layout.cfg"]
QUICK = ["lopl", "tight", "eol1", "eolt1", "own1", "widen", "narrow", "break3a", "break3b", "break3c", "breakcmt3a", "breakcmt3b", "breakcmt3c", "join2a", "upper", "flip"]


def collect(tier):
    th = common.tree_hash(FAMILY_FILES)
    key = "%s/relfam_%s_%d" % (th, tier, common.seed())
    with common.Lock("relfam_" + tier):
        cd = common.cache_dir(key)
        rp = os.path.join(cd, "result.json")
        if os.path.exists(rp):
            r = json.load(open(rp))
            r["cached"] = True
            return r
        r = _collect(tier)
        json.dump(r, open(rp, "w"))
        r["cached"] = False
        return r


def _collect(tier):
    import variants

    t0 = time.time()
    seed = common.seed()
    q = tier == "quick"
    wd = orchestrate.workdir("relfam_" + tier)
    design = []
    for cfg, expect in (("MC_Relayout.cfg", None), ("Mutant_Relayout_Layout.cfg", "C05_RolesInvariant")):
        res = tlc.model_check("Relayout", cfg, workers=16, timeout=900)
        ok = res.ok if expect is None else ("Invariant %s is violated" % expect) in res.out
        design.append({"module": "Relayout", "cfg": cfg, "ok": ok, "states": res.states, "distinct": res.distinct, "expect": expect or "no error", "error": res.error[:300]})
    paths = corpus.all_vhd()
    base = [p for p in paths if p.endswith("_test_input.vhd") or "/styles/code_examples/" in p or "/rule_doc/" in p]
    if q:
        base = corpus.stratified_sample(base, 400, seed, always=("/styles/code_examples/", "/vhdlFile/"))
    recipes = QUICK if q else sorted(variants.RECIPES)
    nsh = 16
    jobs = []
    import gendesign

    gen = [{"text": t, "name": n, "recipes": recipes} for n, t in gendesign.designs(60 if q else 300)]
    for k in range(nsh):
        items = [{"path": p, "name": corpus.rel(p), "recipes": recipes} for p in base[k::nsh]] + gen[k::nsh]
        jobs.append({"out": os.path.join(wd, "rel%02d.json" % k), "items": items, "first_id": (k + 1) * 1000000})
    outs = _run_jobs(jobs, wd, "relrun.py")
    t1 = time.time()
    results = tlc.validate_shards(outs, module="RelayoutTrace", parallel=16, timeout=3000)
    findings = []
    stats = {"pairs": 0, "files": set(), "by_recipe": {}, "tlc_states": 0, "tlc_errors": [], "code_tokens": 0}
    samples = []
    for path, res in results:
        D = json.load(open(path))
        S = F.Strings(path + ".strings")
        recs = dict((r["id"], r) for r in D["recs"])
        stats["tlc_states"] += res.states
        if not res.ok or res.states != len(recs):
            stats["tlc_errors"].append({"shard": os.path.basename(path), "error": res.error[:400], "states": res.states, "recs": len(recs)})
        for r in D["recs"]:
            stats["pairs"] += 1
            stats["files"].add(r["file"])
            stats["by_recipe"][r["recipe"]] = stats["by_recipe"].get(r["recipe"], 0) + 1
            stats["code_tokens"] += len(r["code0"])
            if len(samples) < 3 and len(r["code0"]) > 20:
                samples.append({"file": r["file"], "recipe": r["recipe"], "code_tokens": len(r["code0"]), "accepted": r["accepted"], "roles_equal": r["roles0"] == r["roles1"]})
        for rid, k, clause in res.verdicts:
            r = recs[rid]
            det = {"recipe": r["recipe"], "msg": r["msg"]}
            if clause == "C05_RolesInvariant" and 0 < k <= min(len(r["roles0"]), len(r["roles1"])):
                det.update({"position": k, "token": S.text(r["code0"][k - 1]), "role_before": S.text(r["roles0"][k - 1]), "role_after": S.text(r["roles1"][k - 1]),
                            "context": " ".join(S.text(x) for x in r["code0"][max(0, k - 6): k + 3])})
            findings.append({"property": clause.split("_")[0], "clause": clause, "rule": "", "input": r["file"], "config": r["recipe"], "detail": det})
    stats["files"] = len(stats["files"])
    stats["wall"] = {"drivers": round(t1 - t0, 1), "tlc": round(time.time() - t1, 1)}
    shutil.rmtree(wd, ignore_errors=True)
    return {"findings": findings, "stats": stats, "design": design, "samples": samples}


def check(prop, tier):
    t0 = time.time()
    r = collect(tier)
    st = r["stats"]
    bad = [d for d in r["design"] if not d["ok"]]
    mach = [f for f in r["findings"] if f["clause"].startswith("B_")]
    if st["tlc_errors"] or bad or mach:
        common.machinery("relayout: tlc=%s design=%s binding=%s" % (st["tlc_errors"][:2], bad, [(f["input"], f["config"]) for f in mach[:3]]))
    mine = [f for f in r["findings"] if f["property"] == prop]
    # C05 at the lexical level: TLC on the transcription of the tokenizer (delimiters separate, with or without blanks) and
    # the same clause on every recorded run of the real tokens.create (exhaustive strings, random strings, corpus lines)
    import lexfam

    lr = lexfam.collect(tier)
    lbad = [d for d in lr["design"] if not d["ok"]]
    if lr["stats"]["tlc_errors"] or lbad:
        common.machinery("lexer family: tlc_errors=%s design=%s" % (lr["stats"]["tlc_errors"][:2], lbad))
    mine += [f for f in lr["findings"] if f["property"] == prop]
    known_hits, new = F.split_known(mine, prop)
    rc = common.report(prop, known_hits, new, lambda f: F.write_replay(prop, f))
    cov = {
        "evaluations": st["pairs"],
        "distinct_nontrivial": st["pairs"],
        "rule": "one (file, recipe) pair: the file and its re-layout are both classified by the real parser; every pair is distinct and non-trivial (the recipe changed the text)",
        "samples": r["samples"] or [{"note": "none"}],
        "states": sum(d["states"] for d in r["design"] + lr["design"]) + st["tlc_states"],
        "transitions": sum(d["states"] for d in r["design"] + lr["design"]) + st["tlc_states"],
        "traces_validated_against_impl": st["pairs"],
        "design_models": r["design"] + lr["design"],
        "lexer_strings_checked": lr["stats"]["exhaustive_strings"] + lr["stats"]["random_strings"] + lr["stats"]["corpus_lines"],
        "files": st["files"],
        "pairs_by_recipe": st["by_recipe"],
        "code_tokens_compared": st["code_tokens"],
        "from_cache": r.get("cached", False),
        "collection_wall_s": st["wall"],
    }
    common.write_evidence(prop, tier, "exploration", cov, time.time() - t0, len(new),
                          ["harness/variants.py produces meaning-preserving re-layouts (self-checked with the harness's own lexer: same code tokens, same comments)",
                           "files with pragma / preprocessor regions or multi-line delimited comments are left out", "roles are compared, not judged: the property is invariance, not correctness"])
    return rc
