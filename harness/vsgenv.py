# -*- coding: utf-8 -*-
"""Puts /repo's *working tree* first on sys.path so that every check runs the code as it is now.

All harness modules import VSG through this module.  REPO can be overridden with VSG_VERIF_REPO
(used by the self tests, which run the checks against scratch copies with seeded changes).
"""
import os
import sys

REPO = os.environ.get("VSG_VERIF_REPO", "/repo")
VERIF = os.path.dirname(os.path.dirname(os.path.abspath(__file__)))

if REPO not in sys.path:
    sys.path.insert(0, REPO)
# make sure an installed copy (site-packages / egg-link) can never win
for _m in [m for m in sys.modules if m == "vsg" or m.startswith("vsg.")]:
    del sys.modules[_m]

import vsg  # noqa: E402

assert os.path.abspath(os.path.dirname(vsg.__file__)) == os.path.abspath(os.path.join(REPO, "vsg")), (
    "vsg imported from %s, expected %s/vsg" % (vsg.__file__, REPO)
)
