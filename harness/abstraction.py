# -*- coding: utf-8 -*-
"""Abstraction function: VSG token object -> integer tuple <<u, k, lit, nv, xv, r, w>> (spec/Tokens.tla).

The fixed word ids (< 1000) are parsed from spec/Tokens.tla so there is one source of truth.
The literal class is decided from the *text* of the token, never from VSG's classification, so a
classifier fault cannot hide a change of a literal.
"""
import os
import re

from vsgenv import VERIF

from vsg import parser
from vsg.token import delimited_comment, pragma

CODE, WS, CR, BLANK, CMT, DCMT, PRAGMA, PREPROC, IGN = 1, 2, 3, 4, 5, 6, 7, 8, 9
L_NONE, L_CHAR, L_STRING, L_EXTID, L_BITSTR = 0, 1, 2, 3, 4
KIND_NAMES = {1: "CODE", 2: "WS", 3: "CR", 4: "BLANK", 5: "CMT", 6: "DCMT", 7: "PRAGMA", 8: "PREPROC", 9: "IGN"}

_BITSTR = re.compile(r'^[0-9]*[sSuU]?[bBoOxXdD]"[^"]*"$')


def fixed_words():
    d = {}
    rx = re.compile(r'^(W_[A-Z_]+)\s*==\s*(\d+)\s*\\\*\s*"(.*)"\s*$')
    with open(os.path.join(VERIF, "spec", "Tokens.tla")) as f:
        for line in f:
            m = rx.match(line)
            if m:
                d[m.group(3)] = int(m.group(2))
    assert d["is"] == 1 and d[";"] == 8
    return d


FIXED = fixed_words()


def kind_of(t):
    if isinstance(t, parser.whitespace):
        return WS
    if isinstance(t, parser.carriage_return):
        return CR
    if isinstance(t, parser.blank_line):
        return BLANK
    if isinstance(t, (delimited_comment.beginning, delimited_comment.ending, delimited_comment.text)):
        return DCMT
    if isinstance(t, pragma.pragma):
        return PRAGMA
    if isinstance(t, pragma.ignore):
        return IGN
    if isinstance(t, parser.comment):
        return CMT
    if isinstance(t, parser.preprocessor):
        return PREPROC
    return CODE


def lit_of(v):
    if len(v) == 3 and v[0] == "'" and v[2] == "'":
        return L_CHAR
    if v.startswith('"'):
        return L_STRING
    if v.startswith("\\"):
        return L_EXTID
    if _BITSTR.match(v):
        return L_BITSTR
    return L_NONE


def role_of(t):
    return type(t).__module__.replace("vsg.", "", 1) + "." + type(t).__name__


class Interner:
    """strings <-> small integers, shared by nv, xv and roles of one trace shard."""

    def __init__(self):
        self.d = dict(("s:" + w, i) for w, i in FIXED.items())
        self.rev = dict((i, "s:" + w) for w, i in FIXED.items())
        self.n = 1000

    def get(self, key):
        i = self.d.get(key)
        if i is None:
            i = self.n
            self.n += 1
            self.d[key] = i
            self.rev[i] = key
        return i

    def s(self, text):
        return self.get("s:" + text)

    def r(self, role):
        return self.get("r:" + role)

    def text(self, i):
        return self.rev.get(i, "?%d" % i)[2:]


class Uids:
    """Identity of token objects.  The uid is stored on the object; a copy (copy.deepcopy / copy.copy made by a
    rule) carries the attribute of its original, so ownership is checked against a registry of strong references."""

    def __init__(self):
        self.owner = {}
        self.n = 0

    def of(self, t):
        u = getattr(t, "_vu", None)
        if u is not None and self.owner.get(u) is t:
            return u
        self.n += 1
        u = self.n
        try:
            t._vu = u
        except AttributeError:
            pass
        self.owner[u] = t
        return u


def content(t):
    """what makes two token states 'the same' for the text and the classification: (class, value)"""
    return (type(t), t.value)


_BASESPEC = re.compile(r"^[0-9]*[sSuU]?[bBoOxXdD]$")


def abstract(t, interner, uids, prev_value=None, value=None, cls=None):
    """prev_value: value of the token immediately before t in its list (VSG splits a bit string literal into
    base specifier and value tokens; the value part  "ff"  directly after  x  is a bit value, not a string literal).
    value / cls: abstract the token as it was before an in-place edit."""
    v = value if value is not None else (t.get_value() if hasattr(t, "get_value") else str(t))
    if not isinstance(v, str):
        v = str(v)
    k = kind_of(t)
    lit = lit_of(v) if k == CODE else L_NONE
    if lit == L_STRING and prev_value is not None and _BASESPEC.match(prev_value):
        lit = L_BITSTR
    if k == CODE:
        n = v if lit in (L_CHAR, L_STRING, L_EXTID) else v.lower()
    elif k in (CMT, DCMT, PRAGMA, PREPROC, IGN):
        n = v.replace(" ", "").replace("\t", "")
    elif k == WS:
        n = " "
    else:
        n = v
    return [uids.of(t), k, lit, interner.s(n), interner.s(v), interner.r(role_of(t)), len(v)]


def abstract_list(lTokens, interner, uids, values=None, before=None):
    """values: optional list of (class, value) giving older contents of the same tokens;
    before: value of the token preceding lTokens[0] in the full list (context for bit string values)"""
    out = []
    prev = before
    for i, t in enumerate(lTokens):
        v = values[i][1] if values is not None else None
        out.append(abstract(t, interner, uids, prev_value=prev, value=v))
        prev = v if v is not None else getattr(t, "value", None)
    return out


def show(tok, interner):
    return "%s:%r" % (KIND_NAMES.get(tok[1], "?"), interner.text(tok[4]))
