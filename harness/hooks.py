# -*- coding: utf-8 -*-
"""Add-only instrumentation of VSG, installed from outside the repository (monkeypatching).

Nothing here changes what VSG computes: every wrapper calls the original and records an event *after* the state
change it observes (VSG is sequential inside a process, so the linearization point of every specification
action is the return of the wrapped call; the raise path is recorded too).

Guard: the wrappers are only installed when the environment variable VSG_VERIF_TRACE is set to 1.

Events (see DESIGN.md appendix B) are appended to Tracer.ev as plain dicts of integers / lists of integers /
booleans so that TLC can read them with JsonDeserialize.
"""
import copy
import os
import sys
import traceback

import vsgenv  # noqa: F401  (puts /repo first on sys.path)
from abstraction import Interner, Uids, abstract, abstract_list, content

from vsg import parser, rule as rule_mod, rule_list as rule_list_mod, severity
import vsg.vhdlFile  # noqa: F401

vhdlFile_mod = sys.modules["vsg.vhdlFile.vhdlFile"]

GUARD = "VSG_VERIF_TRACE"

_TRACER = None
_INSTALLED = False


def enabled():
    return os.environ.get(GUARD) == "1"


class Tracer:
    def __init__(self, interner=None, probe=False, deep=False, toi=True, classes=None, analyze_events=False):
        self.interner = interner or Interner()
        self.uids = Uids()
        self.ev = []
        self.probe = probe  # C10: re-fix on a copy after every changing fix
        self.deep = deep  # C06: digest over every token attribute around every analysis
        self.toi = toi  # C18: identity check of every TOI
        self.analyze_events = analyze_events  # emit an event for every analysis that reports something
        self.classes = classes or {}  # rule id -> documented class info
        self.depth = 0  # nesting depth of wrapped rule calls (probes must not be traced)
        self.muted = 0
        self.dirty = True  # index must be re-checked at the next analysis
        self.cur = None  # state of the rule.fix() in progress
        self.stats = {"analyze": 0, "fix_changing": 0, "toi": 0, "toi_tokens": 0, "idx_checks": 0, "probes": 0}
        self.phase_now = 0
        self.reparse = False
        self.check_viol = False
        self.last_digest = None
        self.mode = "fix"

    # ------------------------------------------------------------------ helpers
    def emit(self, d):
        if not self.muted:
            self.ev.append(d)
            # shadow of the list the model holds after this event (token identities): lets the fix wrapper notice a change
            # that no observed action made
            if d.get("e") == "Fix":
                self.shadow = list(d["afterU"])
            elif d.get("e") in ("Parse", "Norm", "FixEnd", "Unobserved") and "toks" in d:
                self.shadow = [t[0] for t in d["toks"]]
            elif d.get("e") == "Round":
                self.shadow = None

    def rid(self, oRule):
        return self.interner.get("R:" + oRule.unique_id)

    def abs_list(self, l):
        return abstract_list(l, self.interner, self.uids)

    def us(self, l):
        return [self.uids.of(t) for t in l]


def tracer():
    return _TRACER


def set_tracer(t):
    global _TRACER
    _TRACER = t
    return t


# ---------------------------------------------------------------------------------------------------------
# independent recomputation of the role -> positions index (not VSG's process_tokens)
# ---------------------------------------------------------------------------------------------------------
def independent_index(lTokens):
    d = {}
    for i, t in enumerate(lTokens):
        base, sub = t.get_unique_id()
        if base is None:
            continue
        d.setdefault(base, {}).setdefault(sub, []).append(i)
        if base == "logical_operator":
            d[base].setdefault(base, []).append(i)
        elif sub == "comma":
            if base != "parser":
                d.setdefault("parser", {}).setdefault("comma", []).append(i)
        elif sub == "open_parenthesis":
            if base != "parser":
                d.setdefault("parser", {}).setdefault("open_parenthesis", []).append(i)
    return d


def index_agrees(oFile):
    mine = independent_index(oFile.lAllObjects)
    theirs = oFile.oTokenMap.dMap
    if mine == theirs:
        return True, None
    # tolerate ordering differences that no lookup can observe?  No: lists are searched with bisect, order matters.
    for base in set(mine) | set(theirs):
        a, b = mine.get(base, {}), theirs.get(base, {})
        for sub in set(a) | set(b):
            if a.get(sub, []) != b.get(sub, []):
                return False, "%s.%s" % (base, sub)
    return False, "?"


def cheap_digest(lTokens):
    return hash((tuple(map(id, lTokens)), tuple([t.value for t in lTokens]), tuple(map(type, lTokens))))


def map_digest(oFile):
    """the role -> positions index is part of the model an analysis must leave alone (C06) and must mirror the list (C18)"""
    try:
        d = oFile.oTokenMap.dMap
        return hash(tuple((b, tuple((s, tuple(l)) for s, l in sorted(sub.items()))) for b, sub in sorted(d.items())))
    except Exception:
        return 0


def _norm(v):
    if isinstance(v, list):
        return tuple(_norm(x) for x in v)
    if isinstance(v, dict):
        return tuple(sorted((k, _norm(x)) for k, x in v.items()))
    if isinstance(v, (str, int, float, bool, type(None), tuple)):
        return v
    return id(v)


def deep_digest(lTokens, skip=("_vu",)):
    out = []
    for t in lTokens:
        out.append((id(t), type(t), tuple((k, _norm(v)) for k, v in sorted(t.__dict__.items()) if k not in skip)))
    return out


def _normcfg(v, depth=0):
    """a configuration value by VALUE (never by identity): option objects and severity objects by class and attributes"""
    if isinstance(v, (str, int, float, bool, type(None))):
        return v
    if depth > 4:
        return "<deep>"
    if isinstance(v, (list, tuple)):
        return tuple(_normcfg(x, depth + 1) for x in v)
    if isinstance(v, dict):
        return tuple(sorted((str(k), _normcfg(x, depth + 1)) for k, x in v.items()))
    if isinstance(v, (set, frozenset)):
        return tuple(sorted(repr(_normcfg(x, depth + 1)) for x in v))
    d = getattr(v, "__dict__", None)
    if d is not None:
        return (type(v).__name__, tuple(sorted((k, _normcfg(x, depth + 1)) for k, x in d.items() if not k.startswith("_"))))
    return type(v).__name__


def cfg_digest(lRules, skip=None):
    """the configurable attributes of every rule, by value (C06: the analysis of one rule must not change what another
    rule is configured to do - e.g. by sorting an option list that several rules share)"""
    out = []
    for r in lRules:
        if r is skip:
            continue
        vals = []
        for name in getattr(r, "configuration", []):
            try:
                v = getattr(r, name)
            except Exception:
                continue
            vals.append((name, _normcfg(v)))
        out.append((getattr(r, "unique_id", "?"), tuple(vals)))
    return out


def cfg_diff(a, b):
    for (ra, va), (rb, vb) in zip(a, b):
        if va != vb:
            da, db = dict(va), dict(vb)
            for k in da:
                if da[k] != db.get(k):
                    return "configuration of rule %s changed: %s: %r -> %r" % (ra, k, da[k], db.get(k))
    return None


def deep_diff(a, b):
    """first attribute that differs between two deep digests -> description"""
    if len(a) != len(b):
        return "list length %d -> %d" % (len(a), len(b))
    for i, (x, y) in enumerate(zip(a, b)):
        if x != y:
            if x[0] != y[0]:
                return "object at %d replaced" % i
            if x[1] != y[1]:
                return "class at %d: %s -> %s" % (i, x[1].__name__, y[1].__name__)
            dx, dy = dict(x[2]), dict(y[2])
            for k in sorted(set(dx) | set(dy)):
                if dx.get(k, "<absent>") != dy.get(k, "<absent>"):
                    return "attr %s at %d: %r -> %r" % (k, i, dx.get(k, "<absent>"), dy.get(k, "<absent>"))
    return None


# ---------------------------------------------------------------------------------------------------------
# per rule instance wrappers
# ---------------------------------------------------------------------------------------------------------
def _line_of(lAll, iStart):
    n = 1
    for t in lAll[:iStart]:
        if isinstance(t, parser.carriage_return):
            n += 1
    return n


def _bof(t):
    return isinstance(t, parser.beginning_of_file)


def check_tois(T, oRule, oFile, lToi):
    """C18: every TOI is the identical contiguous slice of lAllObjects at its recorded start, and its recorded
    line is 1 + number of carriage returns before it.  Returns list of bad TOI descriptions (empty when fine)."""
    bad = []
    lAll = oFile.lAllObjects
    if lToi is None:
        return bad
    crs = None
    for k, oToi in enumerate(lToi):
        try:
            lTok = oToi.get_tokens()
            s = oToi.get_start_index()
        except AttributeError:
            continue
        T.stats["toi"] += 1
        T.stats["toi_tokens"] += len(lTok)
        mine = [t for t in lTok if not _bof(t)]
        ok = True
        if s is None:
            # no start position recorded at all (number_of_lines_between_tokens): nothing that could be wrong
            T.stats["toi_nostart"] = T.stats.get("toi_nostart", 0) + 1
            continue
        if s < 0 or s + len(mine) > len(lAll):
            ok = False
        else:
            sl = lAll[s : s + len(mine)]
            for a, b in zip(mine, sl):
                if a is not b:
                    ok = False
                    break
        lineok = True
        if ok:
            if crs is None:
                crs = [i for i, t in enumerate(lAll) if isinstance(t, parser.carriage_return)]
            import bisect

            lineok = oToi.get_line_number() == bisect.bisect_left(crs, s) + 1
        if not ok or not lineok:
            bad.append({"k": k, "s": -1 if s is None else s, "n": len(mine), "slice": ok, "line": lineok, "ln": oToi.get_line_number() or 0})
            if len(bad) >= 5:
                break
    return bad


def wrap_rule(T, oRule):
    """wraps analyze / fix / _filter_out_fix_only_violations / _get_tokens_of_interest of ONE rule instance"""
    if getattr(oRule, "_vsg_verif_wrapped", False):
        return
    oRule._vsg_verif_wrapped = True
    orig_analyze = oRule.analyze
    orig_fix = oRule.fix
    orig_filter = oRule._filter_out_fix_only_violations
    orig_toi = getattr(oRule, "_get_tokens_of_interest", None)
    state = {"toibad": [], "file": None}

    def toi_wrapper(oFile, *a, **k):
        lToi = orig_toi(oFile, *a, **k)
        if T.toi and not T.muted:
            try:
                state["toibad"] = check_tois(T, oRule, oFile, lToi)
            except Exception:  # machinery must never change behaviour
                state["toibad"] = [{"k": -1, "s": -1, "n": 0, "slice": False, "line": False, "ln": 0, "err": traceback.format_exc(limit=2)}]
        return lToi

    def analyze_wrapper(oFile, *a, **k):
        if T.muted:
            return orig_analyze(oFile, *a, **k)
        T.stats["analyze"] += 1
        state["toibad"] = []
        idx_ok, idx_what = True, None
        if T.dirty:
            T.stats["idx_checks"] += 1
            idx_ok, idx_what = index_agrees(oFile)
            T.emit({"e": "Idx", "ok": idx_ok, "what": idx_what or "", "rule": T.rid(oRule)})
            if idx_ok:
                T.dirty = False
        # the digest taken after the previous analysis of the same list object is still valid unless a fix ran in between
        lAll0 = oFile.lAllObjects
        if T.last_digest is not None and T.last_digest[0] is lAll0 and T.last_digest[1] == len(lAll0):
            d0 = T.last_digest[2]
        else:
            d0 = cheap_digest(lAll0)
        D0 = deep_digest(oFile.lAllObjects) if T.deep else None
        C0 = cfg_digest(getattr(T, "all_rules", []), skip=oRule) if (T.deep and getattr(T, "cfg_deep", False)) else None
        m0 = map_digest(oFile)
        nv0 = len(oRule.violations)
        try:
            ret = orig_analyze(oFile, *a, **k)
        except Exception as e:
            T.emit({"e": "Crash", "rule": T.rid(oRule), "where": "analyze", "exc": type(e).__name__, "msg": str(e)[:200], "phase": oRule.phase or 0})
            raise
        d1 = cheap_digest(oFile.lAllObjects)
        pure = d1 == d0
        map_same = map_digest(oFile) == m0
        if not map_same:
            pure = False
        T.last_digest = (oFile.lAllObjects, len(oFile.lAllObjects), d1) if T.cur is None or T.cur["rule"] is not oRule else None
        what = None
        if not map_same:
            what = "the analysis changed the token index (oTokenMap)"
        if T.deep:
            what = deep_diff(D0, deep_digest(oFile.lAllObjects)) or (cfg_diff(C0, cfg_digest(getattr(T, "all_rules", []), skip=oRule)) if C0 is not None else None) or what
            pure = pure and what is None
        if not pure:
            T.dirty = True
        state["toibad"] = [b for b in state["toibad"] if not b["slice"]]
        notable = state["toibad"] or (not pure)
        if notable or (T.analyze_events and len(oRule.violations) > nv0):
            T.emit(
                {
                    "e": "Analyze",
                    "rule": T.rid(oRule),
                    "idxOk": idx_ok,
                    "idxWhat": idx_what or "",
                    "toiBad": state["toibad"],
                    "pure": pure,
                    "impure": what or "",
                    "nviol": len(oRule.violations),
                    "lines": sorted(set(int(v.get_line_number() or 0) for v in oRule.violations))[:50],
                    "phase": oRule.phase or 0,
                    "infix": T.cur is not None and T.cur["rule"] is oRule,
                }
            )
        return ret

    def filter_wrapper(dFixOnly):
        before = list(oRule.violations)
        ret = orig_filter(dFixOnly)
        cur = T.cur
        if cur is not None and cur["rule"] is oRule and not T.muted:
            cur["reported"] = [(int(v.get_line_number() or 0)) for v in before]
            cur["kept"] = list(oRule.violations)
            T.stats["nfix"] = T.stats.get("nfix", 0) + len(oRule.violations)
            if oRule.violations:
                lAll = cur["file"].lAllObjects
                cur["L0"] = list(lAll)
                cur["C0"] = [content(t) for t in lAll]
                cur["A0"] = None
                # the TOI of every violation as the rule saw it at analysis time
                cur["toi"] = []
                for v in oRule.violations:
                    try:
                        cur["toi"].append((v.oTokens.iStartIndex, v.oTokens.iEndIndex, [t for t in v.oTokens.lTokens if not _bof(t)], int(v.get_line_number() or 0)))
                    except AttributeError:
                        cur["toi"].append(None)
        return ret

    def fix_wrapper(oFile, dFixOnly=None, *a, **k):
        if T.muted or T.cur is not None:
            return orig_fix(oFile, dFixOnly, *a, **k)
        # the list as it is now must be the list the model holds: a difference was made by something that is not an observed
        # action (a rule's update(), the phase-1 clean-up) - reported as C18_NoUnobservedChange, the model is re-synchronised
        sh = getattr(T, "shadow", None)
        if sh is not None and oRule.fixable:
            try:
                now = T.us(oFile.lAllObjects)
                if now != sh:
                    T.emit({"e": "Unobserved", "before": T.rid(oRule), "toks": T.abs_list(oFile.lAllObjects)})
            except Exception:
                pass
        T.cur = {"rule": oRule, "file": oFile, "L0": None, "upd": None, "reported": [], "kept": []}
        cur = T.cur
        pre_list_digest = cheap_digest(oFile.lAllObjects)
        try:
            ret = orig_fix(oFile, dFixOnly, *a, **k)
        except Exception as e:
            T.cur = None
            T.dirty = True
            T.emit({"e": "Crash", "rule": T.rid(oRule), "where": "fix", "exc": type(e).__name__, "msg": str(e)[:200], "phase": oRule.phase or 0})
            raise
        T.cur = None
        T.last_digest = None
        try:
            emit_fix(T, oRule, oFile, cur, dFixOnly, pre_list_digest)
        except Exception:
            T.emit({"e": "Machinery", "what": traceback.format_exc(limit=4)})
        return ret

    oRule.analyze = analyze_wrapper
    oRule.fix = fix_wrapper
    oRule._filter_out_fix_only_violations = filter_wrapper
    if orig_toi is not None:
        oRule._get_tokens_of_interest = toi_wrapper


def rule_info(T, oRule):
    info = T.classes.get(oRule.unique_id)
    if info is None:
        import ruledocs

        info = {"cls": ruledocs.attr_class(oRule), "tags": [], "phase": oRule.phase, "mayDrop": False}
    return info


def named_roles(T, oRule):
    """roles a case rule is entitled to touch: its own lTokens (token_case families); empty = 'identifier-like'."""
    out = []
    l = getattr(oRule, "lTokens", None)
    if not isinstance(l, (list, tuple)):
        return out
    for t in l:
        try:
            out.append(T.interner.r(t.__module__.replace("vsg.", "", 1) + "." + t.__name__))
        except AttributeError:
            pass
    return out


def emit_fix(T, oRule, oFile, cur, dFixOnly, pre_list_digest):
    info = rule_info(T, oRule)
    lAll = oFile.lAllObjects
    if cur["L0"] is None:
        # no violation survived: the rule must not have touched the list
        if cheap_digest(lAll) != pre_list_digest:
            T.dirty = True
            T.emit({"e": "Fix", "rule": T.rid(oRule), "cls": info["cls"], "phase": oRule.phase or 0, "sub": oRule.subphase, "remap": bool(oRule.remap),
                    "fixable": bool(oRule.fixable), "sevErr": oRule.severity.type == severity.error_type, "prereq": bool(getattr(oRule, "prerequisites", [])), "named": [], "mayDrop": False, "rep": [], "kept": [], "win": [], "afterU": T.us(lAll), "collat": [], "silent": True, "resync": True,
                    "full": T.abs_list(lAll), "sel": fix_only_sel(oRule, dFixOnly)})
        return
    L0, C0 = cur["L0"], cur["C0"]
    upd = cur["upd"]
    win = []
    inwin = set()
    if upd is not None:
        tois = cur.get("toi") or []
        for iw, (iStart, iEnd, post_abs, post_objs) in enumerate(upd):
            toi = tois[iw] if iw < len(tois) and len(tois) == len(upd) else None
            pre_objs = L0[iStart:iEnd]
            # contents the tokens had when the violation list became final (set_value works in place)
            pre = abstract_list(pre_objs, T.interner, T.uids, values=C0[iStart:iEnd], before=(C0[iStart - 1][1] if iStart > 0 else None))
            for t in pre_objs:
                inwin.add(id(t))
            for t in post_objs:
                inwin.add(id(t))
            rid_ = oRule.unique_id
            tagged = False
            for t in pre_objs:
                ct = getattr(t, "code_tags", None) or []
                if rid_ in ct or "all" in ct:
                    tagged = True
                    break
            w = {"s": iStart, "n": iEnd - iStart, "pre": pre, "post": post_abs, "tagged": tagged}
            if toi is not None:
                w["ts"], w["te"], w["toiU"], w["line"] = toi[0], toi[1], T.us(toi[2]), toi[3]
            else:
                w["ts"], w["te"], w["toiU"], w["line"] = iStart, iEnd, [], 0
            win.append(w)
    # content changes of surviving tokens outside every window (in-place set_value elsewhere)
    collat = []
    pos0 = {}
    for i, t in enumerate(L0):
        pos0.setdefault(id(t), i)
    for t in lAll:
        i = pos0.get(id(t))
        if i is not None and id(t) not in inwin and C0[i] != content(t):
            collat.append(T.uids.of(t))
    changed = bool(win) or cheap_digest(lAll) != pre_list_digest
    if not changed:
        return
    # when the list after the fix is not the windows spliced last-first (what update() is specified to do), the model
    # cannot follow from the windows alone: give it the full list so that the rest of the trace is still checked
    full = None
    if upd is not None:
        sim = list(L0)
        for (iStart, iEnd, post_abs, post_objs) in reversed(upd):
            sim[iStart:iEnd] = post_objs
        if len(sim) != len(lAll) or any(a is not b for a, b in zip(sim, lAll)):
            full = T.abs_list(lAll)
    T.dirty = True
    T.stats["fix_changing"] += 1
    T.emit(
        {
            "e": "Fix",
            "rule": T.rid(oRule),
            "cls": info["cls"],
            "phase": oRule.phase or 0,
            "sub": oRule.subphase,
            "remap": bool(oRule.remap),
            "fixable": bool(oRule.fixable),
            "sevErr": oRule.severity.type == severity.error_type,
            "prereq": bool(getattr(oRule, "prerequisites", [])),
            "named": named_roles(T, oRule),
            "mayDrop": bool(info.get("mayDrop", False)),
            "rep": sorted(set(cur["reported"])),
            "kept": sorted(set(int(v.get_line_number() or 0) for v in cur["kept"])),
            "win": win,
            "afterU": T.us(lAll),
            "collat": collat,
            "silent": upd is None,
            "resync": full is not None,
            "full": full if full is not None else [],
            "sel": fix_only_sel(oRule, dFixOnly),
        }
    )
    if T.probe:
        run_probe(T, oRule, oFile, dFixOnly)


def emit_reparse(T, oFile):
    """C08: parse the text the model would be written as, afresh, and log both token lists and indents."""
    T.muted += 1
    try:
        lines = oFile.get_lines()[1:]
        ind1 = [(-1 if t.indent is None else int(t.indent)) for t in oFile.lAllObjects]
        try:
            f2 = vhdlFile_mod.vhdlFile(lines, oFile.commandLineArguments, oFile.filename, None, oFile.configuration)
            f2.set_indent_map(oFile.dIndentMap)
            u2 = Uids()
            toks2 = abstract_list(f2.lAllObjects, T.interner, u2)
            ind2 = [(-1 if t.indent is None else int(t.indent)) for t in f2.lAllObjects]
            res = {"e": "Reparse", "ok": True, "toks": toks2, "ind1": ind1, "ind2": ind2, "msg": ""}
        except Exception as e:
            res = {"e": "Reparse", "ok": False, "toks": [], "ind1": ind1, "ind2": [], "msg": type(e).__name__ + ": " + str(getattr(e, "message", e))[:200]}
    finally:
        T.muted -= 1
    T.emit(res)


def emit_check_violations(T, oRules):
    """every violation standing after check_rules: rule, reported line, first/last line of its tokens, solution"""
    import bisect

    lAll = oRules.oVhdlFile.lAllObjects
    crs = [i for i, t in enumerate(lAll) if isinstance(t, parser.carriage_return)]
    out = []
    pos = {}
    for i, t in enumerate(lAll):
        pos.setdefault(id(t), i)
    for oRule in oRules.rules:
        for v in oRule.violations:
            # first / last line of the violation's own tokens, located by identity (the recorded start index is not trusted)
            try:
                idx = [pos[id(t)] for t in v.oTokens.lTokens if id(t) in pos]
                if idx:
                    lo = bisect.bisect_left(crs, min(idx)) + 1
                    hi = bisect.bisect_left(crs, max(idx)) + 1
                else:
                    lo = hi = int(v.get_line_number() or 0)
            except Exception:
                lo = hi = int(v.get_line_number() or 0)
            out.append({"rule": oRule.unique_id, "line": int(v.get_line_number() or 0), "lo": lo, "hi": hi, "sol": str(v.get_solution()),
                        "sev": oRule.severity.name, "err": oRule.severity.type == severity.error_type, "phase": int(oRule.phase or 0)})
    ev = {"e": "CheckViol", "v": out}
    if getattr(T, "check_table", False):
        ev["table"] = [{"rule": r.unique_id, "phase": int(r.phase or 0), "sub": int(r.subphase), "err": r.severity.type == severity.error_type, "dis": bool(r.disable),
                        "cls": rule_info(T, r)["cls"]} for r in oRules.rules if not getattr(r, "deprecated", False)]
    T.emit(ev)


def fix_only_sel(oRule, dFixOnly):
    """what --fix_only says about this rule: -1 = no fix_only file, 0 = not listed, 1 = all, 2 = specific lines"""
    if dFixOnly is None:
        return {"m": -1, "lines": []}
    try:
        l = dFixOnly["fix"]["rule"][oRule.unique_id]
    except (KeyError, TypeError):
        return {"m": 0, "lines": []}
    if "all" in l:
        return {"m": 1, "lines": []}
    return {"m": 2, "lines": sorted(int(x) for x in l if isinstance(x, int))}


def run_probe(T, oRule, oFile, dFixOnly):
    """C10: on a deep copy of the file and a shallow copy of the rule: analyze (V1), fix, analyze (V2)."""
    T.muted += 1
    try:
        T.stats["probes"] += 1
        try:
            f2 = copy.deepcopy(oFile)
        except Exception:
            T.muted -= 1
            T.emit({"e": "Machinery", "what": "deepcopy of file failed in probe"})
            T.muted += 1
            return
        r2 = copy.copy(oRule)
        # the copy must use the *original* bound methods of its own, not this instance's wrappers
        for name in ("analyze", "fix", "_filter_out_fix_only_violations", "_get_tokens_of_interest", "_vsg_verif_wrapped"):
            if name in r2.__dict__:
                del r2.__dict__[name]
        r2.violations = []
        res = {"e": "Probe", "rule": T.rid(oRule), "phase": oRule.phase or 0, "crash": ""}
        try:
            r2.analyze(f2)
            v1 = sorted(int(v.get_line_number() or 0) for v in r2.violations)
            r2.violations = []
            before = [(type(t), t.value) for t in f2.lAllObjects]
            r2.fix(f2, dFixOnly)
            after = [(type(t), t.value) for t in f2.lAllObjects]
            r2.violations = []
            r2.analyze(f2)
            v2 = sorted(int(v.get_line_number() or 0) for v in r2.violations)
            res.update({"v1": v1[:40], "n1": len(v1), "changed": before != after, "v2": v2[:40], "n2": len(v2), "same": v1 == v2})
            if before != after:
                # first differing position, for the replay file
                i = 0
                while i < min(len(before), len(after)) and before[i] == after[i]:
                    i += 1
                res["at"] = i
                res["atline"] = 1 + sum(1 for c, v in before[:i] if c is parser.carriage_return)
        except Exception as e:
            res.update({"v1": [], "n1": 0, "changed": False, "v2": [], "n2": 0, "same": True, "crash": type(e).__name__ + ": " + str(e)[:120]})
    finally:
        T.muted -= 1
    T.emit(res)


# ---------------------------------------------------------------------------------------------------------
# class level wrappers (installed once)
# ---------------------------------------------------------------------------------------------------------
def install():
    """install the class-level wrappers; idempotent; a no-op unless the guard variable is set"""
    global _INSTALLED
    if _INSTALLED or not enabled():
        return _INSTALLED
    _INSTALLED = True

    RL = rule_list_mod.rule_list
    VF = vhdlFile_mod.vhdlFile

    orig_rl_init = RL.__init__

    def rl_init(self, *a, **k):
        orig_rl_init(self, *a, **k)
        T = _TRACER
        if T is not None and not T.muted:
            for oRule in self.rules:
                wrap_rule(T, oRule)
            T.all_rules = self.rules

    RL.__init__ = rl_init

    orig_update = VF.update

    def update(self, lUpdates, bUpdateMap):
        T = _TRACER
        if T is not None and not T.muted and T.cur is not None and T.cur["file"] is self and len(lUpdates) > 0:
            rec = []
            for oUpdate in lUpdates:
                iStart = oUpdate.oTokens.iStartIndex
                iEnd = oUpdate.oTokens.iEndIndex
                post = [t for t in oUpdate.get_tokens() if not _bof(t)]
                before = self.lAllObjects[iStart - 1].value if 0 < iStart <= len(self.lAllObjects) else None
                rec.append((iStart, iEnd, abstract_list(post, T.interner, T.uids, before=before), post))
            T.cur["upd"] = rec
        return orig_update(self, lUpdates, bUpdateMap)

    VF.update = update

    orig_rl_fix = RL.fix

    def rl_fix(self, iFixPhase=7, lSkipPhase=None, dFixOnly=None):
        T = _TRACER
        if T is None or T.muted:
            return orig_rl_fix(self, iFixPhase, lSkipPhase, dFixOnly)
        T.emit({"e": "FixBegin", "fixPhase": int(iFixPhase), "skip": sorted(int(x) for x in (lSkipPhase or [])), "fixOnly": dFixOnly is not None})
        try:
            ret = orig_rl_fix(self, iFixPhase, lSkipPhase, dFixOnly)
        except Exception as e:
            T.emit({"e": "FixAbort", "exc": type(e).__name__})
            raise
        T.emit({"e": "FixEnd", "toks": T.abs_list(self.oVhdlFile.lAllObjects), "had": bool(self.had_violations)})
        if T.reparse:
            emit_reparse(T, self.oVhdlFile)
        return ret

    RL.fix = rl_fix

    orig_process = VF._processFile

    def _processFile(self):
        T = _TRACER
        if T is None or T.muted:
            return orig_process(self)
        try:
            ret = orig_process(self)
        except Exception as e:
            msg = getattr(e, "message", str(e))
            T.emit({"e": "Rejected", "exc": type(e).__name__, "msg": str(msg)[:300]})
            raise
        T.dirty = True
        content_lines = [str(x).rstrip("\n").rstrip("\r") for x in self.filecontent]
        try:
            rt = self.get_lines()[1:] == content_lines
        except Exception:
            rt = False
        # the lines VSG read are the lines of the file on disk (T.disk_lines: split by the driver on CR LF / LF / CR only)
        disk = getattr(T, "disk_lines", None)
        T.emit({"e": "Parse", "toks": T.abs_list(self.lAllObjects), "raw": sum(1 for t in self.lAllObjects if type(t) is parser.item),
                "rt": rt, "lineLens": [len(x) for x in content_lines], "disk": True if disk is None else (content_lines == disk)})
        return ret

    VF._processFile = _processFile

    # phase-1 normalisation: one Norm event after fix_trailing_whitespace (the pair always runs together)
    orig_fbl = VF.fix_blank_lines
    orig_ftw = VF.fix_trailing_whitespace

    def fix_blank_lines(self):
        T = _TRACER
        if T is not None and not T.muted:
            T._norm_before = True
        return orig_fbl(self)

    def fix_trailing_whitespace(self):
        ret = orig_ftw(self)
        T = _TRACER
        if T is not None and not T.muted:
            T.dirty = True
            T.emit({"e": "Norm", "toks": T.abs_list(self.lAllObjects)})
        return ret

    VF.fix_blank_lines = fix_blank_lines
    VF.fix_trailing_whitespace = fix_trailing_whitespace

    orig_sti = VF.set_token_indent

    def set_token_indent_w(self):
        ret = orig_sti(self)
        T = _TRACER
        if T is not None and not T.muted:
            T.emit({"e": "SetIndent"})
        return ret

    VF.set_token_indent = set_token_indent_w

    orig_check = RL.check_rules

    def check_rules(self, bAllPhases=False, lSkipPhase=None):
        T = _TRACER
        if T is None or T.muted:
            return orig_check(self, bAllPhases, lSkipPhase)
        T.emit({"e": "CheckBegin", "ap": bool(bAllPhases), "skip": sorted(int(x) for x in (lSkipPhase or []))})
        if getattr(T, "shuffle", None) is not None:
            # C06 probe: analyse the rules in another order (phase / subphase grouping is by attribute, not by list position)
            import random as _random

            _random.Random(T.shuffle).shuffle(self.rules)
        D0 = deep_digest(self.oVhdlFile.lAllObjects) if getattr(T, "deep_ends", False) else None
        C0 = cfg_digest(self.rules) if getattr(T, "deep_ends", False) else None
        try:
            ret = orig_check(self, bAllPhases, lSkipPhase)
        except Exception as e:
            T.emit({"e": "CheckAbort", "exc": type(e).__name__})
            raise
        if D0 is not None:
            what = deep_diff(D0, deep_digest(self.oVhdlFile.lAllObjects)) or cfg_diff(C0, cfg_digest(self.rules))
            if what is not None:
                T.emit({"e": "CheckImpure", "what": what})
        T.emit({"e": "CheckEnd", "last": int(self.lastPhaseRan), "ran": int(self.iNumberRulesRan), "viol": bool(self.violations)})
        if T.check_viol:
            emit_check_violations(T, self)
        if getattr(T, "repeat_check", False):
            # C06 probe: the same analysis once more on the same objects must report the same
            self.clear_violations()
            ret = orig_check(self, bAllPhases, lSkipPhase)
            emit_check_violations(T, self)
        return ret

    RL.check_rules = check_rules
    return True
