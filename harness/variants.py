# -*- coding: utf-8 -*-
"""Meaning-preserving re-layouts of a VHDL text (the recipes of spec/Relayout.tla applied to real files).

Every recipe is a function text -> text | None (None: the recipe does not apply to this file).  A recipe is described
by its operation and a period/phase so that, over the recipes of one operation, EVERY eligible position of the file
receives the operation in some variant:
   eol_comment(g, p)   append ' -- vc' to every g-th line (phase p) that ends in code
   own_comment(g, p)   put a comment line '-- vc' before every g-th line
   widen(g, p)         double every g-th interior blank run
   narrow              every interior blank run becomes one blank
   break_at(g, p)      replace every g-th interior blank run by a line break (+ indentation)
   join(g, p)          join every g-th line with the next one (where a blank then separates them and no comment ends it)
   upper / lower / flip   change the case of every word that is not a literal
Files with pragma / preprocessor / code-tag regions are left alone around those lines.
"""
import re

import vlex

# the comment forms VSG treats as pragmas by default (vsg/config.py dPragmas): a file that contains one is left alone
_FROZEN = re.compile(r"^--\s+(synthesis|pragma|altera|synopsys|xilinx)\s+\w+(\s+\w+)?\s*$|^--vhdl_comp_(off|on)\s*$|^--\s+RTL_SYNTHESIS\s+(OFF|ON)\s*$")
_TAG = re.compile(r"--\s*vsg_")


def _lines(toks):
    """split token list into lines (each without its nl token)"""
    out, cur = [], []
    for t in toks:
        if t[0] == "nl":
            out.append(cur)
            cur = []
        else:
            cur.append(t)
    trailing = cur
    return out, trailing


def _frozen_file(toks):
    for k, t in toks:
        if k == "pre":
            return True
        if k == "cmt" and _FROZEN.search(t) and not _TAG.search(t):
            return True
        if k == "dcmt" and "\n" in t:
            return True
    return False


def _emit(lines, trailing):
    return "".join("".join(t for _, t in ln) + "\n" for ln in lines) + "".join(t for _, t in trailing)


def _has_code(ln):
    return any(k not in ("ws", "cmt", "dcmt") for k, _ in ln)


def _ends_in_comment(ln):
    for k, _ in reversed(ln):
        if k == "ws":
            continue
        return k in ("cmt",)
    return False


def eol_comment(text, g=1, p=0, tight=False):
    toks = vlex.lex(text)
    if _frozen_file(toks):
        return None
    lines, trailing = _lines(toks)
    n = 0
    out = []
    for ln in lines:
        if _has_code(ln) and not _ends_in_comment(ln):
            if n % g == p:
                ln = ln + ([] if tight else [("ws", " ")]) + [("cmt", ("--vt%d" if tight else "-- vc%d") % n)]
            n += 1
        out.append(ln)
    return _emit(out, trailing) if n else None


def own_comment(text, g=1, p=0):
    toks = vlex.lex(text)
    if _frozen_file(toks):
        return None
    lines, trailing = _lines(toks)
    out = []
    n = 0
    prev_tag = False
    for ln in lines:
        is_tag = any(k == "cmt" and _TAG.search(t) for k, t in ln)
        if not prev_tag and not (is_tag and "next_line" in "".join(t for _, t in ln)):
            if n % g == p:
                out.append([("cmt", "-- vo%d" % n)])
            n += 1
        out.append(ln)
        prev_tag = is_tag and "vsg_disable_next_line" in "".join(t for _, t in ln)
    return _emit(out, trailing)


def _interior_ws_positions(ln):
    """indexes of whitespace tokens that separate two code tokens of the same line"""
    pos = []
    for i, (k, t) in enumerate(ln):
        if k == "ws" and 0 < i < len(ln) - 1 and ln[i - 1][0] not in ("ws", "cmt", "dcmt") and ln[i + 1][0] not in ("ws", "cmt", "dcmt") and "\r" not in t:
            pos.append(i)
    return pos


def widen(text, g=1, p=0, narrow=False):
    toks = vlex.lex(text)
    if _frozen_file(toks):
        return None
    lines, trailing = _lines(toks)
    n = 0
    out = []
    for ln in lines:
        ln = list(ln)
        if not any(k == "cmt" and _TAG.search(t) for k, t in ln):
            for i in _interior_ws_positions(ln):
                if n % g == p:
                    ln[i] = ("ws", " " if narrow else ln[i][1] * 2)
                n += 1
        out.append(ln)
    return _emit(out, trailing) if n else None


# the VHDL delimiters a blank may be removed next to ('.' is part of a selected name; '!' '@' '^' '`' '$' '%' '#' are left
# alone: PSL keywords such as  restrict!  and tool directives are not VHDL lexical elements)
_VHDL_DELIM_CHARS = set("&'()*+,-/:;<=>|[]?")


def _vsym(tok):
    return tok[0] == "sym" and all(c in _VHDL_DELIM_CHARS for c in tok[1])


def tight(text, g=1, p=0):
    """remove every g-th interior blank run that separates a word / literal from a symbol (lbl : a <= b  ->  lbl:a<=b);
    blanks between two words are needed, blanks between two symbols could fuse them - both are left alone"""
    toks = vlex.lex(text)
    if _frozen_file(toks):
        return None
    lines, trailing = _lines(toks)
    n = 0
    out = []
    for ln in lines:
        if any(k == "cmt" and _TAG.search(t) for k, t in ln):
            out.append(ln)
            continue
        drop = set()
        for i in _interior_ws_positions(ln):
            a, b = ln[i - 1][0], ln[i + 1][0]
            if (a == "sym") != (b == "sym") and (_vsym(ln[i - 1]) or _vsym(ln[i + 1])):
                if n % g == p:
                    drop.add(i)
                n += 1
        out.append([t for i, t in enumerate(ln) if i not in drop])
    return _emit(out, trailing) if n else None


def lopsided(text, left=True):
    """asymmetric spacing round every symbol that has blanks on both sides: none on one side, doubled on the other
    (a & b -> a&  b   or   a  &b)"""
    toks = vlex.lex(text)
    if _frozen_file(toks):
        return None
    lines, trailing = _lines(toks)
    n = 0
    out = []
    for ln in lines:
        if any(k == "cmt" and _TAG.search(t) for k, t in ln):
            out.append(ln)
            continue
        ln = list(ln)
        pos = set(_interior_ws_positions(ln))
        drop = set()
        for i, (k, t) in enumerate(ln):
            if _vsym((k, t)) and (i - 1) in pos and (i + 1) in pos and ln[i - 2][0] != "sym" and i + 2 < len(ln) and ln[i + 2][0] != "sym":
                a, b = (i - 1, i + 1) if left else (i + 1, i - 1)
                if a in drop or b in drop:
                    continue
                drop.add(a)
                ln[b] = ("ws", ln[b][1] * 2)
                n += 1
        out.append([t for i, t in enumerate(ln) if i not in drop])
    return _emit(out, trailing) if n else None


def break_at(text, g=3, p=0):
    toks = vlex.lex(text)
    if _frozen_file(toks):
        return None
    lines, trailing = _lines(toks)
    n = 0
    out = []
    for ln in lines:
        if any(k == "cmt" and _TAG.search(t) for k, t in ln):
            out.append(ln)
            continue
        indent = ln[0][1] if ln and ln[0][0] == "ws" else ""
        cur = []
        pos = set(_interior_ws_positions(ln))
        for i, t in enumerate(ln):
            if i in pos:
                if n % g == p:
                    out.append(cur)
                    cur = [("ws", indent + "  ")]
                    n += 1
                    continue
                n += 1
            cur.append(t)
        out.append(cur)
    return _emit(out, trailing) if n else None


def join(text, g=2, p=0):
    toks = vlex.lex(text)
    if _frozen_file(toks):
        return None
    lines, trailing = _lines(toks)
    out = []
    n = 0
    i = 0
    did = False
    while i < len(lines):
        ln = lines[i]
        if (i + 1 < len(lines) and _has_code(ln) and _has_code(lines[i + 1]) and not any(k in ("cmt", "dcmt") for k, _ in ln)
                and not any(k == "cmt" and _TAG.search(t) for k, t in lines[i + 1])):
            if n % g == p:
                nxt = list(lines[i + 1])
                while nxt and nxt[0][0] == "ws":
                    nxt.pop(0)
                a = list(ln)
                while a and a[-1][0] == "ws":
                    a.pop()
                out.append(a + [("ws", " ")] + nxt)
                i += 2
                n += 1
                did = True
                continue
            n += 1
        out.append(ln)
        i += 1
    return _emit(out, trailing) if did else None


def recase(text, how="upper"):
    toks = vlex.lex(text)
    if _frozen_file(toks):
        return None
    out = []
    n = 0
    for k, t in toks:
        if k == "word" and re.search(r"[A-Za-z]", t):
            if how == "upper":
                t2 = t.upper()
            elif how == "lower":
                t2 = t.lower()
            else:
                t2 = t.swapcase()
            if t2 != t:
                n += 1
            t = t2
        out.append((k, t))
    return vlex.unlex(out) if n else None


def break_comment(text, g=3, p=0):
    """a line break AND a comment at every g-th interior blank: a comment between any two tokens a blank separates"""
    v = break_at(text, g, p)
    if v is None:
        return None
    return eol_comment(v, 1, 0)


def utf8_header(text, pad=0):
    """a block of comment lines made of three-byte UTF-8 characters in front of the file, 64 bytes per line, shifted by
    `pad` bytes: in two of the three shifts a character straddles every multiple of 8192 bytes; the file grows beyond 8 KiB"""
    if not text.strip():
        return None
    head = "--" + "x" * pad + "\n"
    body = ("-- " + "\u6e2c" * 20 + "\n") * 150
    return head + body + text


def ctl_header(text):
    """comment lines in front of the file that contain, inside the comment, the characters some libraries treat as line
    boundaries although VHDL and VSG's reader do not: form feed, vertical tab, file separator, NEL, U+2028, U+2029"""
    if not text.strip():
        return None
    head = "".join("-- %s %s mark\n" % (name, ch) for name, ch in (("ff", "\x0c"), ("vt", "\x0b"), ("fs", "\x1c"), ("nel", "\x85"), ("ls", "\u2028"), ("ps", "\u2029")))
    return head + text


RECIPES = {
    "ownctl": ctl_header,
    "ownutf8a": lambda s: utf8_header(s, 0),
    "ownutf8b": lambda s: utf8_header(s, 1),
    "ownutf8c": lambda s: utf8_header(s, 2),
    "lopl": lambda s: lopsided(s, True),
    "lopr": lambda s: lopsided(s, False),
    "tight": lambda s: tight(s, 1, 0),
    "tight2a": lambda s: tight(s, 2, 0),
    "tight2b": lambda s: tight(s, 2, 1),
    "eolt1": lambda s: eol_comment(s, 1, 0, tight=True),      # the comment directly abuts the code:  std_logic);--c
    "breakcmt3a": lambda s: break_comment(s, 3, 0),
    "breakcmt3b": lambda s: break_comment(s, 3, 1),
    "breakcmt3c": lambda s: break_comment(s, 3, 2),
    "eol1": lambda s: eol_comment(s, 1, 0),
    "eol3a": lambda s: eol_comment(s, 3, 0),
    "eol3b": lambda s: eol_comment(s, 3, 1),
    "own1": lambda s: own_comment(s, 1, 0),
    "own3": lambda s: own_comment(s, 3, 2),
    "widen": lambda s: widen(s, 1, 0),
    "narrow": lambda s: widen(s, 1, 0, narrow=True),
    "break3a": lambda s: break_at(s, 3, 0),
    "break3b": lambda s: break_at(s, 3, 1),
    "break3c": lambda s: break_at(s, 3, 2),
    "break1": lambda s: break_at(s, 1, 0),
    "join2a": lambda s: join(s, 2, 0),
    "join2b": lambda s: join(s, 2, 1),
    "upper": lambda s: recase(s, "upper"),
    "lower": lambda s: recase(s, "lower"),
    "flip": lambda s: recase(s, "flip"),
}


def apply(name, text):
    try:
        v = RECIPES[name](text)
    except Exception:
        return None
    if v is None or v == text:
        return None
    # a recipe must not change the code tokens or the comments' order (self check of the harness, not of VSG)
    if name.startswith(("eol", "own", "breakcmt")):
        if vlex.code_tokens(v) != vlex.code_tokens(text):
            return None
    elif name in ("upper", "lower", "flip"):
        if [t.lower() for t in vlex.code_tokens(v)] != [t.lower() for t in vlex.code_tokens(text)]:
            return None
    else:
        if vlex.code_tokens(v) != vlex.code_tokens(text) or vlex.comments(v) != vlex.comments(text):
            return None
    return v
