# -*- coding: utf-8 -*-
"""C15 - a file's result does not depend on jobs, order, neighbours or input channel.
design  : TLC over spec/Batch.tla (4 files x 3 workers, every order and schedule; leaking-worker mutant).
binding : the real command line (fork pool) over seeded file lists, permutations and job counts, every apply_rules call
          recorded with digests of all module-level state before / after and of its result; TLC (spec/BatchTrace.tla)
          compares with the solo p=1 run of each file, checks output order and the exit status."""
import json
import os
import random
import shutil
import time

import common
import corpus
import findings as F
import orchestrate
import tlc
from tagfam import _run_jobs

FAMILY_FILES = ["spec/MainProof.tla", "spec/tlaps_stubs/SequencesExt.tla", "harness/fixfam.py", "spec/Main.tla", "spec/MainTrace.tla", "spec/MainTrace.cfg", "spec/MC_Main.cfg", "spec/MC_Main_PerFile.cfg", "spec/MC_Main_thorough.cfg", "spec/Known_Main_StopRace.cfg",
                "spec/Mutant_Main_Unordered.cfg", "spec/Mutant_Main_ExitLast.cfg", "harness/batchfam.py", "harness/batchrun.py", "harness/vsg_traced.py", "harness/tagfam.py", "spec/Batch.tla", "spec/BatchTrace.tla", "spec/BatchTrace.cfg", "spec/MC_Batch.cfg",
                "spec/Mutant_Batch_Leak.cfg"]
REJ = "entity e is\n  port (a : in std_logic;\nend entity e\n\narchitecture a of e is\nbegin\n  process begin end end end;\n"


def collect(tier):
    th = common.tree_hash(FAMILY_FILES)
    key = "%s/batchfam_%s_%d" % (th, tier, common.seed())
    with common.Lock("batchfam_" + tier):
        cd = common.cache_dir(key)
        rp = os.path.join(cd, "result.json")
        if os.path.exists(rp):
            r = json.load(open(rp))
            r["cached"] = True
            return r
        r = _collect(tier)
        json.dump(r, open(rp, "w"))
        r["cached"] = False
        return r


def _collect(tier):
    t0 = time.time()
    seed = common.seed()
    q = tier == "quick"
    rnd = random.Random(seed)
    wd = orchestrate.workdir("batchfam_" + tier)
    design = []
    models = [("Batch", "MC_Batch.cfg", None), ("Batch", "Mutant_Batch_Leak.cfg", "C15_LeakConstant"),
              # the command line as a whole: parent, workers, stop flag, exit status, artefacts, disk
              ("Main", "MC_Main.cfg" if q else "MC_Main_thorough.cfg", None), ("Main", "MC_Main_PerFile.cfg", None),
              ("Main", "Known_Main_StopRace.cfg", "C15_DiskAsSerial"),     # design-level statement of a known finding
              ("Main", "Mutant_Main_Unordered.cfg", "C15_OutputOrder"), ("Main", "Mutant_Main_ExitLast.cfg", "C14_ExitIsOr")]
    for module, cfg, expect in models:
        res = tlc.model_check(module, cfg, workers=8, timeout=1200)
        ok = res.ok if expect is None else ("Invariant %s is violated" % expect) in res.out
        design.append({"module": module, "cfg": cfg, "ok": ok, "states": res.states, "distinct": res.distinct, "expect": expect or "no error", "error": res.error[:300]})
    # C15_OutputOrder for ANY number of files and jobs: TLAPS proof spec/MainProof.tla (an extra next to the TLC runs)
    import fixfam

    tp = fixfam.run_tlaps("MainProof", ["Main.tla", "MainProof.tla", "tlaps_stubs/SequencesExt.tla"], {"C15"})
    design.append({"module": "MainProof", "cfg": "tlapm", "ok": tp["ok"], "states": 0, "distinct": 0, "expect": tp["expect"], "error": tp["error"][:300], "obligations_proved": tp["obligations_proved"]})
    paths = [p for p in corpus.all_vhd() if p.endswith("_test_input.vhd") or "/styles/code_examples/" in p]
    small = [p for p in paths if os.path.getsize(p) < 6000]
    sample = corpus.stratified_sample(small, 10 if q else 40, seed, always=("/styles/code_examples/comments.vhd", "/styles/code_examples/grp_debouncer.vhd"))
    pool = {}
    for i, p in enumerate(sample):
        pool["f%02d_%s" % (i, os.path.basename(p))] = p
    pool["rejected.vhd"] = REJ
    # files that leave "sticky" parser state behind if it is not per file: an unclosed pragma region, an unclosed
    # delimited comment, an unclosed vsg_off tag
    STICKY = {
        "sticky_pragma.vhd": "entity e2 is\nend entity e2;\n--vhdl_comp_off\narchitecture a of e2 is\nbegin\nend architecture a;\n",
        "sticky_comment.vhd": "entity e3 is\nend entity e3;\n/* never closed\narchitecture a of e3 is\nbegin\nend architecture a;\n",
        "sticky_tag.vhd": "-- vsg_off\nentity E4 is\nend entity E4;\narchitecture A of E4 is\nbegin\nend architecture A;\n",
    }
    pool.update(STICKY)
    crasher = os.path.join(common.REPO, "tests", "constant", "rule_017_test_input.vhd")
    names = sorted(pool)
    scen = []
    k = 0
    nsc = 24 if q else 160
    sticky = [n for n in names if n.startswith("sticky_")]
    for i in range(nsc):
        n = rnd.choice([2, 3, 3, 4, 5])
        files = rnd.sample(names, n)
        if i % 2 == 0:
            # a sticky file first, an ordinary one right after it
            files = [sticky[(i // 2) % len(sticky)]] + [f for f in files if not f.startswith("sticky_")][: n - 1]
        k += 1
        scen.append({"k": k, "files": files, "p": rnd.choice([1, 2, 2, 3]), "fix": rnd.random() < 0.5})
        if i % 3 == 0:
            k += 1
            perm = list(files)
            rnd.shuffle(perm)
            scen.append({"k": k, "files": perm, "p": rnd.choice([1, 2, 3]), "fix": scen[-1]["fix"]})
    # a long sequence in one worker, and the same list spread over three
    long = rnd.sample(names, min(len(names), 10))
    for p in (1, 3):
        k += 1
        scen.append({"k": k, "files": long, "p": p, "fix": False})
    for nm in rnd.sample([n for n in names if n != "rejected.vhd" and not n.startswith("sticky_")], 2 if q else 6):
        k += 1
        scen.append({"k": k, "files": [nm], "p": 1, "fix": False, "stdin": True})
    k += 1
    scen.append({"k": k, "files": [rnd.choice([n for n in names if n != "rejected.vhd" and not n.startswith("sticky_")])], "p": 1, "fix": True, "stdin": True})
    # a configuration error that hits ONE file (a file_list section naming a rule that does not exist) stops the run: the
    # slow file carries it, cheap files follow it, so that pool workers have time to get to them (spec/Main.tla, StopRace)
    big = [p for p in corpus.all_vhd() if "/styles/code_examples/" in p and os.path.getsize(p) > 30000][:1]
    if big:
        with open(big[0]) as f:
            pool["slow_big.vhd"] = f.read() * 4
        ordinary = [n for n in names if n != "rejected.vhd" and not n.startswith("sticky_")]
        for j in range(2 if q else 8):
            fs = rnd.sample(ordinary, 3)
            for p in (1, 3):
                k += 1
                scen.append({"k": k, "files": [fs[0], "slow_big.vhd", fs[1], fs[2]], "p": p, "fix": True, "bad": ["slow_big.vhd"]})
        k += 1
        scen.append({"k": k, "files": rnd.sample(ordinary, 3) + ["rejected.vhd"], "p": 2, "fix": True, "bad": []})
        k += 1
        scen.append({"k": k, "files": ["rejected.vhd"] + rnd.sample(ordinary, 2), "p": 3, "fix": False, "bad": ["rejected.vhd"]})
        # per-file settings (file_list sections) of rules the main configuration also sets: they belong to that file only
        main_rule = {"length_001": {"length": 100}, "entity_008": {"case": "lower"}, "architecture_013": {"case": "lower"}, "signal_004": {"case": "lower"}}
        for j in range(2 if q else 8):
            fs = rnd.sample(ordinary, 3)
            per = {fs[0]: {"length_001": {"length": 40}, "entity_008": {"case": "upper"}, "architecture_013": {"case": "upper"}, "signal_004": {"disable": True}}}
            for p in ((1, 2) if j % 2 == 0 else (1,)):
                k += 1
                scen.append({"k": k, "files": fs, "p": p, "fix": j % 2 == 1, "bad": [], "main_rule": main_rule, "perfile": per, "kind": "perfile-settings"})
    # --fix_only given once for several files: every file gets the whole selection (all rules listed "all" = plain --fix)
    import ruledocs

    everything = {"fix": {"rule": dict((rid, ["all"]) for rid in sorted(ruledocs.documented_rules()))}}
    ordinary = [n for n in names if n != "rejected.vhd" and not n.startswith("sticky_")]
    for j in range(2 if q else 6):
        fs = rnd.sample(ordinary, 3)
        for p in (1, 2):
            k += 1
            scen.append({"k": k, "files": fs, "p": p, "fix": True, "fix_only": everything, "kind": "fix_only-all"})
    nsh = 16
    jobs = []
    for j in range(nsh):
        part = scen[j::nsh]
        if part:
            jobs.append({"out": os.path.join(wd, "bt%02d.json" % j), "work": os.path.join(wd, "bt_w%02d" % j), "first_id": (j + 1) * 100000, "pool": pool, "scenarios": part})
    outs = _run_jobs(jobs, wd, "batchrun.py")
    t1 = time.time()
    results = tlc.validate_shards(outs, module="BatchTrace", parallel=16)
    findings = []
    stats = {"invocations": 0, "tasks": 0, "multi_process": 0, "tlc_states": 0, "tlc_errors": [], "by_p": {}, "fix": 0, "stdin": 0}
    samples = []
    main_samples = []
    for path, res in results:
        D = json.load(open(path))
        recs = dict((r["id"], r) for r in D["recs"])
        stats["tlc_states"] += res.states
        if not res.ok or res.states != len(recs):
            stats["tlc_errors"].append({"shard": os.path.basename(path), "error": res.error[:400], "states": res.states, "recs": len(recs)})
        for r in D["recs"]:
            stats["invocations"] += 1
            stats["tasks"] += len(r["tasks"])
            stats["multi_process"] += 1 if r["pids"] > 1 else 0
            stats["by_p"][str(r["p"])] = stats["by_p"].get(str(r["p"]), 0) + 1
            stats["fix"] += 1 if r["fix"] else 0
            stats["stdin"] += 1 if r["stdin"] else 0
            if len(samples) < 3 and r["pids"] > 1:
                samples.append({"files": r["files"], "p": r["p"], "fix": r["fix"], "tasks": [{"index": t["index"], "pid": t["pid"], "seq": t["seq"], "leak": t["leakAfter"], "result": t["result"]} for t in r["tasks"]],
                                "printed": r["printed"], "exit": r["exit"]})
        for rid, kk, clause in res.verdicts:
            r = recs[rid]
            t = r["tasks"][kk - 1] if 0 < kk <= len(r["tasks"]) else {}
            findings.append({"property": clause.split("_")[0], "clause": clause, "rule": "", "input": "stdin" if r["stdin"] else (t.get("file") or ",".join(r["files"])),
                             "config": "p=%d fix=%s%s%s" % (r["p"], r["fix"], " stdin" if r["stdin"] else "", (" " + r["kind"]) if r.get("kind") else ""),
                             "detail": {"files": r["files"], "task": t, "printed": r["printed"], "exit": r["exit"], "stderr_tail": r["stderr_tail"]}})
    # the same invocations as behaviours of spec/Main.tla (per-process event sequences; TLC finds the interleaving)
    mouts = [o + ".main" for o in outs if os.path.exists(o + ".main")]
    mres = tlc.validate_shards(mouts, module="MainTrace", parallel=16)
    stats["main_records"] = 0
    stats["main_states"] = 0
    stats["main_multi_process"] = 0
    stats["main_events"] = 0
    for path, res in mres:
        D = json.load(open(path))
        recs = dict((r["id"], r) for r in D["recs"])
        stats["main_states"] += res.states
        stats["tlc_states"] += res.states
        if not res.ok:
            stats["tlc_errors"].append({"shard": os.path.basename(path), "error": res.error[:400], "states": res.states, "recs": len(recs)})
        seen = set()
        for rid, r in recs.items():
            stats["main_records"] += 1
            stats["main_multi_process"] += 1 if len(r["procs"]) > 1 else 0
            stats["main_events"] += sum(len(p) for p in r["procs"]) + len(r["out"]) + len(r["err"])
            if rid not in res.done and not any(v[0] == rid and v[2] == "C15_NoScheduleExplains" for v in res.verdicts):
                stats["tlc_errors"].append({"shard": os.path.basename(path), "error": "record %d neither accepted nor rejected" % rid})
            if len(main_samples) < 2 and len(r["procs"]) > 1:
                main_samples.append({"files": r["names"], "abstract": r["files"], "jobs": r["jobs"], "fix": r["fix"], "per_process_events": r["procs"], "stdout_order": r["out"], "stderr_order": r["err"],
                                     "exit": r["exit"], "disk": r["disk"]})
        for rid, kk, clause in res.verdicts:
            if (rid, kk, clause) in seen:
                continue  # the same clause fails on every interleaving TLC tries
            seen.add((rid, kk, clause))
            r = recs[rid]
            dev = ""
            if clause == "C15_DiskAsSerial":
                # which files deviate from the one-job run, and how (identifies the known stop race, and only it)
                stop = next((i for i, a in enumerate(r["files"]) if a["cls"] == "cfgerr"), len(r["files"]))
                serial = ["fixed" if (i <= stop and a["cls"] == "ok" and a["dirty"] and r["fix"]) else "orig" for i, a in enumerate(r["files"])]
                devs = [(i, d) for i, (d, s0) in enumerate(zip(r["disk"], serial)) if d != s0]
                if devs and all(i > stop and d == "fixed" for i, d in devs) and r["jobs"] > 1:
                    dev = " dev=fixed-after-stop"
                else:
                    dev = " dev=" + ",".join("%d:%s" % (i + 1, d) for i, d in devs)
            findings.append({"property": clause.split("_")[0], "clause": clause, "rule": "", "input": ",".join(r["names"]),
                             "config": "p=%d fix=%s%s" % (r["jobs"], r["fix"], " percfg:" + ",".join(r["bad"]) if r.get("percfg") else "") + ((" " + r["kind"]) if r.get("kind") else "") + dev,
                             "detail": {"files": r["names"], "abstract": r["files"], "task": kk, "procs": r["procs"], "out": r["out"], "err": r["err"], "exit": r["exit"], "junit": r["junit"], "json": r["json"],
                                        "disk": r["disk"], "stderr_tail": r["stderr_tail"]}})
    samples += main_samples
    stats["wall"] = {"drivers": round(t1 - t0, 1), "tlc": round(time.time() - t1, 1)}
    shutil.rmtree(wd, ignore_errors=True)
    return {"findings": findings, "stats": stats, "design": design, "samples": samples}


def extra_findings(prop, tier):
    """findings of the command-line model (spec/Main.tla) that belong to another family's property (C14 exit status and
    artefacts, C16 rejected file untouched, C04 no write without --fix); machinery problems stop the caller"""
    r = collect(tier)
    st = r["stats"]
    bad = [d for d in r["design"] if not d["ok"]]
    if st["tlc_errors"] or bad:
        common.machinery("batch family: tlc=%s design=%s" % (st["tlc_errors"][:2], bad[:2]))
    return [f for f in r["findings"] if f["property"] == prop], {"main_records": st.get("main_records"), "main_states": st.get("main_states"),
                                                                  "design": [d for d in r["design"] if d["module"] == "Main"]}


def check(prop, tier):
    t0 = time.time()
    r = collect(tier)
    st = r["stats"]
    bad = [d for d in r["design"] if not d["ok"]]
    mach = [f for f in r["findings"] if f["clause"].startswith("B_")]
    if st["tlc_errors"] or bad or mach:
        common.machinery("batch: tlc=%s design=%s binding=%s" % (st["tlc_errors"][:2], bad, [(f["clause"], f["input"], f["config"]) for f in mach[:3]]))
    mine = [f for f in r["findings"] if f["property"] == prop]
    known_hits, new = F.split_known(mine, prop)
    rc = common.report(prop, known_hits, new, lambda f: F.write_replay(prop, f))
    cov = {
        "states": sum(d["states"] for d in r["design"]) + st["tlc_states"],
        "transitions": sum(d["states"] for d in r["design"]) + st["tlc_states"],
        "traces_validated_against_impl": st["invocations"],
        "samples": r["samples"] or [{"note": "no multi-process sample"}],
        "evaluations": st["invocations"],
        "distinct_nontrivial": st["multi_process"] + st["stdin"],
        "rule": "one command-line invocation per (file list, order, job count, --fix) over a seeded pool of small fixtures plus a rejected file; non-trivial = more than one worker process took tasks, or --stdin",
        "design_models": r["design"],
        "apply_rules_calls_recorded": st["tasks"],
        "main_trace": {"records": st.get("main_records"), "multi_process": st.get("main_multi_process"), "events": st.get("main_events"), "states": st.get("main_states"),
                       "note": "spec/MainTrace.tla: per-process B/E events + stdout / stderr order; TLC searches the interleaving that is a behaviour of spec/Main.tla"},
        "invocations_by_jobs": st["by_p"],
        "with_fix": st["fix"],
        "from_cache": r.get("cached", False),
        "collection_wall_s": st["wall"],
    }
    common.write_evidence(prop, tier, "model_checking", cov, time.time() - t0, len(new),
                          ["the leak digest covers every non-function global and class attribute of the loaded vsg.* modules plus the shared configuration / argument objects",
                           "fork start method (workers inherit the tracer)", "TLC/SANY, Json module"])
    return rc
