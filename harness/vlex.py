# -*- coding: utf-8 -*-
"""A small VHDL lexer of the harness's own (NOT VSG's tokenizer): splits text into layout, comments, literals, words and
symbols.  Used to build meaning-preserving re-layouts (variants.py) and for end-to-end comparisons of code tokens.

The decision "character literal or attribute tick" is taken from the previous *token*, never from spacing, so that
re-spacing a text cannot change how it is split.

kinds: ws nl cmt dcmt str chr ext word num sym pre
"""

_WORD = set("abcdefghijklmnopqrstuvwxyzABCDEFGHIJKLMNOPQRSTUVWXYZ0123456789_.#")
RESERVED = set("""abs access after alias all and architecture array assert assume assume_guarantee attribute begin block body buffer bus case component
configuration constant context cover default disconnect downto else elsif end entity exit fairness file for force function generate generic group guarded if impure in inertial
inout is label library linkage literal loop map mod nand new next nor not null of on open or others out package parameter port postponed procedure process property protected
pure range record register reject release rem report restrict restrict_guarantee return rol ror select sequence severity shared signal sla sll sra srl strong subtype then to
transport type unaffected units until use variable vmode vprop vunit wait when while with xnor xor""".split())
_TWO = {"=>", "**", ":=", "/=", ">=", "<=", "<>", "??", "?=", "?<", "?>", "<<", ">>"}
_THREE = {"?/=", "?<=", "?>="}


def lex(text):
    out = []
    i = 0
    n = len(text)
    prev = None  # previous non-layout token (kind, text)
    line_start = True
    while i < n:
        c = text[i]
        if c == "\n":
            out.append(("nl", c))
            i += 1
            line_start = True
            continue
        if c == "\r":
            out.append(("ws", c))
            i += 1
            continue
        if c in " \t\f\v\xa0":
            j = i
            while j < n and text[j] in " \t\f\v\xa0":
                j += 1
            out.append(("ws", text[i:j]))
            i = j
            continue
        if c in "`#" and line_start:      # a preprocessor line (VSG: first non-blank character is '#'); also the VHDL-2019 tool directive
            j = text.find("\n", i)
            j = n if j < 0 else j
            out.append(("pre", text[i:j]))
            i = j
            continue
        line_start = False
        if text.startswith("--", i):
            j = text.find("\n", i)
            j = n if j < 0 else j
            out.append(("cmt", text[i:j].rstrip("\r")))
            i += len(text[i:j].rstrip("\r"))
            continue
        if text.startswith("/*", i):
            j = text.find("*/", i + 2)
            j = n if j < 0 else j + 2
            out.append(("dcmt", text[i:j]))
            i = j
            prev = prev
            continue
        if c == '"':
            j = i + 1
            while j < n:
                if text[j] == '"':
                    if j + 1 < n and text[j + 1] == '"':
                        j += 2
                        continue
                    break
                if text[j] == "\n":
                    break
                j += 1
            j = min(n, j + 1)
            tok = ("str", text[i:j])
        elif c == "\\":
            j = i + 1
            while j < n and text[j] != "\\" and text[j] != "\n":
                j += 1
            j = min(n, j + 1)
            tok = ("ext", text[i:j])
        elif c == "'":
            # a tick after a name, a literal or a closing bracket is the attribute / qualified-expression tick; after a reserved
            # word (range 'a' to 'z', else 'Z', when '1' ...) or an operator it opens a character literal
            is_attr = prev is not None and ((prev[0] == "word" and (prev[1].lower() not in RESERVED or prev[1].lower() == "all")) or prev[0] in ("ext", "str", "chr", "bits") or prev[1] in (")", "]"))
            if not is_attr and i + 2 < n and text[i + 2] == "'":
                tok = ("chr", text[i : i + 3])
                j = i + 3
            else:
                tok = ("sym", "'")
                j = i + 1
        elif c in _WORD:
            j = i
            while j < n and text[j] in _WORD:
                j += 1
            # based / bit string literal:  16#ff#  x"ff"  12x"0f"
            if j < n and text[j] == '"' and text[i:j].lstrip("0123456789").lower() in ("b", "o", "x", "d", "ub", "uo", "ux", "sb", "so", "sx"):
                k = text.find('"', j + 1)
                k = n if k < 0 else k + 1
                tok = ("bits", text[i:k])
                j = k
            else:
                tok = ("word", text[i:j])
        else:
            if text[i : i + 3] in _THREE:
                j = i + 3
            elif text[i : i + 2] in _TWO:
                j = i + 2
            else:
                j = i + 1
            tok = ("sym", text[i:j])
        out.append(tok)
        prev = tok
        i = j
    return out


def code_tokens(text):
    """normalised code tokens: case-insensitive except character / string literals and extended identifiers"""
    out = []
    for k, t in lex(text):
        if k in ("ws", "nl", "cmt", "dcmt", "pre"):
            continue
        out.append(t if k in ("str", "chr", "ext") else t.lower())
    return out


def comments(text):
    return [t for k, t in lex(text) if k in ("cmt", "dcmt", "pre")]


def unlex(toks):
    return "".join(t for _, t in toks)
