# -*- coding: utf-8 -*-
"""C15 driver: the real command line over several files, several job counts and orders (harness/vsg_traced.py).

usage (internal): batchrun.py <job.json>   job = {"out", "work", "pool": {name: path|text}, "scenarios": [{"files": [names], "p": n, "fix": bool}]}
"""
import glob
import json
import os
import re
import shutil
import subprocess
import sys

HARNESS = os.path.dirname(os.path.abspath(__file__))
PY = os.environ.get("VSG_VERIF_PYTHON", "/venv/bin/python")


def materialise(pool, names, d):
    out = []
    for nm in names:
        q = os.path.join(d, nm)
        src = pool[nm]
        if os.path.exists(src):
            shutil.copyfile(src, q)
        else:
            with open(q, "w") as f:
                f.write(src)
        out.append(q)
    return out


def invoke(d, files, p, fix, extra=(), stdin_text=None):
    taskdir = os.path.join(d, "tasks")
    os.makedirs(taskdir, exist_ok=True)
    env = dict(os.environ)
    env.update({"VSG_VERIF_TRACE": "1", "VSG_VERIF_TASKDIR": taskdir, "VSG_VERIF_SCRUB": d, "PYTHONDONTWRITEBYTECODE": "1", "PYTHONHASHSEED": "0", "PYTHONWARNINGS": "ignore"})
    args = [PY, os.path.join(HARNESS, "vsg_traced.py")]
    if files:
        args += ["-f"] + files
    args += ["-p", str(p), "--json", os.path.join(d, "o.json"), "--junit", os.path.join(d, "o.xml")] + (["--fix"] if fix else []) + list(extra)
    pr = subprocess.run(args, stdout=subprocess.PIPE, stderr=subprocess.PIPE, env=env, cwd=d, timeout=900, input=(stdin_text.encode() if stdin_text is not None else None))
    tasks = []
    for tf in sorted(glob.glob(os.path.join(taskdir, "tasks_*.jsonl"))):
        with open(tf) as f:
            for line in f:
                tasks.append(json.loads(line))
    tasks.sort(key=lambda t: (t["index"], t["pid"], t["seq"]))
    so, se = pr.stdout.decode(errors="replace"), pr.stderr.decode(errors="replace")
    return {"rc": pr.returncode, "stdout": so, "stderr": se, "tasks": tasks}


def printed_order(text):
    return [os.path.basename(m) for m in re.findall(r"^File:  (.*)$", text, re.M)]


def main():
    job = json.load(open(sys.argv[1]))
    work = job["work"]
    os.makedirs(work, exist_ok=True)
    pool = job["pool"]
    recs = []
    nid = job.get("first_id", 0)
    solo = {}

    def solo_result(name, fix):
        k = (name, fix)
        if k not in solo:
            d = os.path.join(work, "solo_%s_%d" % (re.sub(r"\W", "_", name), int(fix)))
            shutil.rmtree(d, ignore_errors=True)
            os.makedirs(d)
            files = materialise(pool, [name], d)
            r = invoke(d, files, 1, fix)
            solo[k] = r["tasks"][0]["result"] if r["tasks"] else "no-task"
            shutil.rmtree(d, ignore_errors=True)
        return solo[k]

    for sc in job["scenarios"]:
        d = os.path.join(work, "sc%d" % sc["k"])
        shutil.rmtree(d, ignore_errors=True)
        os.makedirs(d)
        files = materialise(pool, sc["files"], d)
        stdin_ok = True
        if sc.get("stdin"):
            # the same single file through --stdin: report and status must be those of the by-name run
            with open(files[0]) as f:
                text = f.read()
            byname = invoke(d, files, 1, sc["fix"])
            d2 = os.path.join(d, "stdin")
            os.makedirs(d2)
            viastdin = invoke(d2, [], 1, sc["fix"], extra=["--stdin"], stdin_text=text)

            def rows(s):
                return [l for l in s.split("\n") if re.match(r"^  [a-z_]+_[0-9]{3}\s+\|", l)]

            stdin_ok = rows(byname["stdout"]) == rows(viastdin["stdout"]) and byname["rc"] == viastdin["rc"]
            r = byname
            tb = "Traceback (most recent call last)" in (viastdin["stderr"] + viastdin["stdout"] + r["stderr"])
        else:
            r = invoke(d, files, sc["p"], sc["fix"])
            tb = "Traceback (most recent call last)" in (r["stderr"] + r["stdout"])
        names = [os.path.basename(f) for f in files]
        nid += 1
        tasks = [{"pid": t["pid"], "seq": t["seq"], "index": t["index"], "file": t["file"], "leakBefore": t["leakBefore"], "leakAfter": t["leakAfter"], "result": t["result"], "status": t["status"]}
                 for t in r["tasks"]]
        stopped = "ERROR: Invalid configuration" in r["stderr"] or len(tasks) < len(names)
        recs.append({"id": nid, "files": names, "p": sc["p"], "fix": sc["fix"], "stdin": bool(sc.get("stdin")), "tasks": tasks, "leak0": tasks[0]["leakBefore"] if tasks else "",
                     "solo": [[n, solo_result(n, sc["fix"])] for n in sorted(set(names))], "printed": printed_order(r["stdout"]), "exit": 1 if r["rc"] else 0, "stopped": stopped,
                     "stdinOk": stdin_ok, "traceback": tb, "pids": len(set(t["pid"] for t in tasks)), "stderr_tail": r["stderr"][-300:]})
        shutil.rmtree(d, ignore_errors=True)
    with open(job["out"], "w") as f:
        json.dump({"recs": recs}, f, separators=(",", ":"))


if __name__ == "__main__":
    main()
