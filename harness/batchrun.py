# -*- coding: utf-8 -*-
"""C15 driver: the real command line over several files, several job counts and orders (harness/vsg_traced.py).

usage (internal): batchrun.py <job.json>   job = {"out", "work", "pool": {name: path|text}, "scenarios": [{"files": [names], "p": n, "fix": bool}]}
"""
import glob
import json
import os
import re
import shutil
import subprocess
import sys

HARNESS = os.path.dirname(os.path.abspath(__file__))
PY = os.environ.get("VSG_VERIF_PYTHON", "/venv/bin/python")


def materialise(pool, names, d):
    out = []
    for nm in names:
        q = os.path.join(d, nm)
        src = pool[nm]
        if os.path.exists(src):
            shutil.copyfile(src, q)
        else:
            with open(q, "w") as f:
                f.write(src)
        out.append(q)
    return out


def invoke(d, files, p, fix, extra=(), stdin_text=None, cfg=None, fix_only=None):
    taskdir = os.path.join(d, "tasks")
    os.makedirs(taskdir, exist_ok=True)
    env = dict(os.environ)
    env.update({"VSG_VERIF_TRACE": "1", "VSG_VERIF_TASKDIR": taskdir, "VSG_VERIF_SCRUB": d, "PYTHONDONTWRITEBYTECODE": "1", "PYTHONHASHSEED": "0", "PYTHONWARNINGS": "ignore"})
    args = [PY, os.path.join(HARNESS, "vsg_traced.py")]
    if files and cfg is None:
        args += ["-f"] + files
    if cfg is not None:
        args += ["-c", cfg]
    if fix_only is not None:
        fo = os.path.join(d, "fix_only.json")
        with open(fo, "w") as f:
            json.dump(fix_only, f)
        args += ["--fix_only", fo]
    args += ["-p", str(p), "--json", os.path.join(d, "o.json"), "--junit", os.path.join(d, "o.xml")] + (["--fix"] if fix else []) + list(extra)
    pr = subprocess.run(args, stdout=subprocess.PIPE, stderr=subprocess.PIPE, env=env, cwd=d, timeout=900, input=(stdin_text.encode() if stdin_text is not None else None))
    tasks = []
    procs = []  # per process: its B / E records in its own order
    for tf in sorted(glob.glob(os.path.join(taskdir, "tasks_*.jsonl"))):
        evs = []
        with open(tf) as f:
            for line in f:
                try:
                    evs.append(json.loads(line))
                except ValueError:
                    pass  # a worker killed while writing its last line
        evs.sort(key=lambda e: e.get("ord", 0))
        procs.append(evs)
        tasks += [e for e in evs if e.get("t") == "E"]
    tasks.sort(key=lambda t: (t["index"], t["pid"], t["seq"]))
    so, se = pr.stdout.decode(errors="replace"), pr.stderr.decode(errors="replace")
    arte = {"json": [], "junit": []}
    try:
        with open(os.path.join(d, "o.json")) as f:
            arte["json"] = [os.path.basename(e.get("file_path", "?")) for e in json.load(f).get("files", [])]
    except (OSError, ValueError):
        arte["json"] = None
    try:
        with open(os.path.join(d, "o.xml")) as f:
            arte["junit"] = [os.path.basename(m) for m in re.findall(r'<testcase name="([^"]*)"', f.read())]
    except OSError:
        arte["junit"] = None
    return {"rc": pr.returncode, "stdout": so, "stderr": se, "tasks": tasks, "procs": procs, "arte": arte}


def body(path):
    import hashlib

    try:
        with open(path, "rb") as f:
            return hashlib.sha1(f.read()).hexdigest()[:16]
    except OSError:
        return ""


def perfile_config(d, names, bad, main_rule=None, perfile=None):
    """a configuration whose file_list names the files (command-line order); the ones in `bad` carry a per-file section that
    names a rule which does not exist (a ConfigurationError for that file only); `perfile`: {name: rule section} per-file
    settings of existing rules; `main_rule`: the main rule section"""
    fl = []
    for nm in names:
        sec = {}
        if nm in (bad or []):
            sec["no_such_rule_001"] = {"disable": True}
        if perfile and nm in perfile:
            sec.update(perfile[nm])
        fl.append({nm: {"rule": sec}} if sec else nm)
    cfg = {"file_list": fl}
    if main_rule:
        cfg["rule"] = main_rule
    p = os.path.join(d, "perfile.json")
    with open(p, "w") as f:
        json.dump(cfg, f, indent=1)
    return p


def printed_order(text):
    return [os.path.basename(m) for m in re.findall(r"^File:  (.*)$", text, re.M)]


def main():
    job = json.load(open(sys.argv[1]))
    work = job["work"]
    os.makedirs(work, exist_ok=True)
    pool = job["pool"]
    recs = []
    mrecs = []
    nid = job.get("first_id", 0)
    solo = {}

    solo_abs = {}

    def solo_result(name, fix, bad=False, percfg=False, sc=None):
        sc = sc or {}
        k = (name, fix, bad, percfg, json.dumps([sc.get("main_rule"), (sc.get("perfile") or {}).get(name), sc.get("fix_only")], sort_keys=True))
        if k not in solo:
            d = os.path.join(work, "solo_%s_%d%d%d_%d" % (re.sub(r"\W", "_", name), int(fix), int(bad), int(percfg), len(solo)))
            shutil.rmtree(d, ignore_errors=True)
            os.makedirs(d)
            files = materialise(pool, [name], d)
            r = invoke(d, files, 1, fix, cfg=(perfile_config(d, [name], [name] if bad else [], sc.get("main_rule"), sc.get("perfile")) if percfg else None), fix_only=sc.get("fix_only"))
            solo[k] = r["tasks"][0]["result"] if r["tasks"] else "no-task"
            t = r["tasks"][0] if r["tasks"] else {"status": True, "stop": True, "wrote": False, "bodyAfter": ""}
            cls = "cfgerr" if t["stop"] else ("rejected" if "Error while processing" in r["stderr"] else "ok")
            solo_abs[k] = {"cls": cls, "err": bool(t["status"]) if cls == "ok" else False, "dirty": bool(t["wrote"]) if cls == "ok" else False, "fixed": t.get("bodyAfter", "")}
            shutil.rmtree(d, ignore_errors=True)
        return solo[k]

    for sc in job["scenarios"]:
        d = os.path.join(work, "sc%d" % sc["k"])
        shutil.rmtree(d, ignore_errors=True)
        os.makedirs(d)
        files = materialise(pool, sc["files"], d)
        stdin_ok = True
        bad = sc.get("bad")
        if sc.get("stdin"):
            # the same single file through --stdin: report and status must be those of the by-name run
            with open(files[0]) as f:
                text = f.read()
            byname = invoke(d, files, 1, sc["fix"])
            d2 = os.path.join(d, "stdin")
            os.makedirs(d2)
            viastdin = invoke(d2, [], 1, sc["fix"], extra=["--stdin"], stdin_text=text)

            def rows(s):
                return [l for l in s.split("\n") if re.match(r"^  [a-z_]+_[0-9]{3}\s+\|", l)]

            stdin_ok = rows(byname["stdout"]) == rows(viastdin["stdout"]) and byname["rc"] == viastdin["rc"]
            r = byname
            tb = "Traceback (most recent call last)" in (viastdin["stderr"] + viastdin["stdout"] + r["stderr"])
        else:
            bad = sc.get("bad")
            orig_body = [body(f) for f in files]
            r = invoke(d, files, sc["p"], sc["fix"], cfg=(perfile_config(d, [os.path.basename(f) for f in files], bad, sc.get("main_rule"), sc.get("perfile")) if bad is not None else None),
                       fix_only=sc.get("fix_only"))
            tb = "Traceback (most recent call last)" in (r["stderr"] + r["stdout"])
        names = [os.path.basename(f) for f in files]
        if not sc.get("stdin"):
            # the record for spec/MainTrace.tla: per-process event sequences, print order, artefacts, disk
            bad = sc.get("bad")
            for nm in sorted(set(names)):
                solo_result(nm, sc["fix"], bad=(bad is not None and nm in bad), percfg=bad is not None, sc=sc)
            skey = lambda nm: (nm, sc["fix"], bad is not None and nm in bad, bad is not None, json.dumps([sc.get("main_rule"), (sc.get("perfile") or {}).get(nm), sc.get("fix_only")], sort_keys=True))
            absf = [solo_abs[skey(nm)] for nm in names]
            idx = dict((nm, i + 1) for i, nm in enumerate(names))
            procs = []
            for evs in r["procs"]:
                seq = [{"t": e["t"], "i": e["index"] + 1, "status": bool(e.get("status", False)), "stop": bool(e.get("stop", False)), "wrote": bool(e.get("wrote", False))} for e in evs]
                if seq:
                    procs.append(seq)
            disk = []
            for f, b0, a in zip(files, orig_body, absf):
                b1 = body(f)
                disk.append("orig" if b1 == b0 else ("fixed" if b1 == a["fixed"] else "other"))
            # --fix_only listing every rule with "all" is a plain --fix: the text each file ends with is the text of its solo plain fix
            foSame = []
            if sc.get("fix_only") is not None and sc.get("kind") == "fix_only-all":
                plain = dict(sc)
                plain.pop("fix_only")
                for f, nm in zip(files, names):
                    solo_result(nm, True, bad=False, percfg=False, sc=plain)
                    pk = (nm, True, False, False, json.dumps([plain.get("main_rule"), (plain.get("perfile") or {}).get(nm), None], sort_keys=True))
                    foSame.append(body(f) == solo_abs[pk]["fixed"])
            out = [idx.get(os.path.basename(m), 0) for m in re.findall(r"^File:  (.*)$", r["stdout"], re.M)]
            err = [idx.get(os.path.basename(m), 0) for m in re.findall(r"^Error while processing (.*?): ", r["stderr"], re.M)]
            mrecs.append({"id": nid + 1, "jobs": sc["p"], "fix": bool(sc["fix"]), "files": [{"cls": a["cls"], "err": a["err"], "dirty": a["dirty"]} for a in absf],
                          "procs": procs, "out": out, "err": err, "exit": 1 if r["rc"] else 0,
                          "junit": [idx.get(x, 0) for x in (r["arte"]["junit"] or [])], "json": [idx.get(x, 0) for x in (r["arte"]["json"] or [])],
                          "disk": disk, "foSame": foSame, "names": names, "bad": bad or [], "percfg": bad is not None, "kind": sc.get("kind", ""), "traceback": tb, "stderr_tail": r["stderr"][-300:]})
        nid += 1
        tasks = [{"pid": t["pid"], "seq": t["seq"], "index": t["index"], "file": t["file"], "leakBefore": t["leakBefore"], "leakAfter": t["leakAfter"], "result": t["result"], "status": t["status"]}
                 for t in r["tasks"]]
        stopped = "ERROR: Invalid configuration" in r["stderr"] or len(tasks) < len(names)
        recs.append({"id": nid, "files": names, "p": sc["p"], "fix": sc["fix"], "stdin": bool(sc.get("stdin")), "tasks": tasks, "leak0": tasks[0]["leakBefore"] if tasks else "",
                     "solo": [[n, solo_result(n, sc["fix"], bad=(bad is not None and n in bad), percfg=bad is not None, sc=sc)] for n in sorted(set(names))], "printed": printed_order(r["stdout"]), "exit": 1 if r["rc"] else 0, "stopped": stopped,
                     "kind": sc.get("kind", ""), "stdinOk": stdin_ok, "traceback": tb, "pids": len(set(t["pid"] for t in tasks)), "stderr_tail": r["stderr"][-300:]})
        shutil.rmtree(d, ignore_errors=True)
    with open(job["out"], "w") as f:
        json.dump({"recs": recs}, f, separators=(",", ":"))
    with open(job["out"] + ".main", "w") as f:
        json.dump({"recs": mrecs}, f, separators=(",", ":"))


if __name__ == "__main__":
    main()
