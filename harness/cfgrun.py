# -*- coding: utf-8 -*-
"""C12 / C17 drivers: configuration stacks instantiated as real files and loaded by the real config.New +
apply_rules.configure_rules; unknown / deprecated rule names; --output_configuration round trips.

usage (internal): cfgrun.py <job.json>
"""
import contextlib
import io
import json
import os
import random
import subprocess
import sys
import traceback

os.environ.setdefault("VSG_VERIF_TRACE", "1")
sys.path.insert(0, os.path.dirname(os.path.abspath(__file__)))
import vsgenv  # noqa: E402,F401
import hooks  # noqa: E402
from abstraction import Interner  # noqa: E402
from runfix import parse_args  # noqa: E402
import chkrun  # noqa: E402

from vsg import apply_rules, config, rule_list, vhdlFile  # noqa: E402

INT = chkrun.INT
ATTR_A, ATTR_B = "user_error_message", "indent_size"
SECS = ["global", "gpar", "gsub", "rule", "fl_global", "fl_gpar", "fl_gsub", "fl_rule", "fr_global", "fr_gpar", "fr_gsub", "fr_rule"]


def rule_meta():
    f = vhdlFile.vhdlFile([""])
    rl = rule_list.rule_list(f, vhdlFile.vhdlFile.default_conf.severity_list if hasattr(vhdlFile.vhdlFile, "default_conf") else None)
    live = [r for r in rl.rules if not r.deprecated and not getattr(r, "proposed", False)]   # proposed = documented but not implemented, nothing is configurable
    dep = [r.unique_id for r in rl.rules if r.deprecated]
    par, sub = set(), set()
    meta = {}
    for r in live:
        gs = list(r.groups)
        p = [g for g in gs if "::" not in g]
        s = [g for g in gs if "::" in g]
        par.update(p)
        sub.update(s)
        meta[r.unique_id] = {"hasSub": bool(s), "hasPar": bool(p)}
    return meta, sorted(par), sorted(sub), dep


def val(i, k, attr):
    """value that identifies its origin: source i, section index k"""
    n = i * 100 + k * 2 + (0 if attr == "a" else 1)
    return n


def attrs_of(code, i, k):
    d = {}
    if code in (1, 3):
        d[ATTR_A] = str(val(i, k, "a"))
    if code in (2, 3):
        d[ATTR_B] = val(i, k, "b")
    return d


def build_source(i, codes, meta, par, sub, fname):
    """codes: dict section -> 0..3 ; returns (config dict, abstract source for TLC)"""
    cfg = {}
    rule = {}
    idx = dict((s, k + 1) for k, s in enumerate(SECS))

    def fill(prefix, container):
        g = attrs_of(codes.get(prefix + "global", 0), i, idx[prefix + "global"])
        if g:
            container.setdefault("rule", {})["global"] = g
        gp = attrs_of(codes.get(prefix + "gpar", 0), i, idx[prefix + "gpar"])
        gs = attrs_of(codes.get(prefix + "gsub", 0), i, idx[prefix + "gsub"])
        if gp or gs:
            grp = {}
            for name in par:
                if gp:
                    grp[name] = dict(gp)
            for name in sub:
                if gs:
                    grp[name] = dict(gs)
            container.setdefault("rule", {})["group"] = grp
        r = attrs_of(codes.get(prefix + "rule", 0), i, idx[prefix + "rule"])
        if r:
            for rid in meta:
                container.setdefault("rule", {})[rid] = dict(r)

    fill("", cfg)
    fl = {}
    fill("fl_", fl)
    if fl:
        cfg["file_list"] = [{fname: fl}]
    fr = {}
    fill("fr_", fr)
    if fr:
        cfg["file_rules"] = [{fname: fr}]
    abstract = {}
    for s in SECS:
        pairs = []
        code = codes.get(s, 0)
        if code in (1, 3):
            pairs.append(["a", val(i, idx[s], "a")])
        if code in (2, 3):
            pairs.append(["b", val(i, idx[s], "b")])
        abstract[s] = pairs
    return cfg, abstract


def load_and_observe(fname, cfgfiles, meta, style=None):
    """the real loader: config.New + rule_list + configure_rules, then read what every rule will act on"""
    args = ["-f", fname] + (["--style", style] if style else []) + (["-c"] + cfgfiles if cfgfiles else [])
    cla = parse_args(args)
    oConfig = config.New(cla)
    lines, err = vhdlFile.utils.read_vhdlfile(fname)
    oFile = vhdlFile.vhdlFile(lines, cla, fname, err, oConfig)
    oRules = rule_list.rule_list(oFile, oConfig.severity_list, None)
    apply_rules.configure_rules(oConfig, oRules, oConfig.dConfig, 0, fname)
    obs = {}
    for r in oRules.rules:
        if r.deprecated or r.unique_id not in meta:
            continue
        a = getattr(r, ATTR_A)
        b = getattr(r, ATTR_B)
        try:
            a = int(a) if a != "" else 0
        except (TypeError, ValueError):
            a = -1
        obs[r.unique_id] = (a, b if isinstance(b, int) else -1)
    # does the rule ACT on the effective value?  the user error message is appended to every solution it reports
    oRules.check_rules(bAllPhases=True)
    acts = {}
    for r in oRules.rules:
        if r.deprecated or r.unique_id not in meta:
            continue
        ok = True
        msg = getattr(r, ATTR_A)
        for v in r.violations:
            sol = str(v.get_solution())
            if msg != "" and not sol.endswith("[user_error_message: " + str(msg) + "]"):
                ok = False
            if msg == "" and "user_error_message" in sol:
                ok = False
        acts[r.unique_id] = ok
    return obs, acts


def stack_records(job, nid):
    recs = []
    meta, par, sub, dep = rule_meta()
    work = job["work"]
    fname = os.path.join(work, "cfg_input.vhd")
    with open(job["input"]) as f:
        text = f.read()
    with open(fname, "w") as f:
        f.write(text)
    for sc in job["stacks"]:
        files = []
        stack = []
        for i, codes in enumerate(sc["sources"], 1):
            cfg, abstract = build_source(i, codes, meta, par, sub, fname)
            p = os.path.join(work, "src%d.json" % i)
            with open(p, "w") as f:
                json.dump(cfg, f)
            files.append(p)
            stack.append(abstract)
        out = io.StringIO()
        try:
            with contextlib.redirect_stdout(out), contextlib.redirect_stderr(out):
                obs, acts = load_and_observe(fname, files, meta, style=sc.get("style"))
            status = "ok"
        except SystemExit:
            status = "exit"
            obs, acts = {}, {}
        except Exception as e:
            status = "crash:" + type(e).__name__ + ":" + str(e)[:80]
            obs, acts = {}, {}
        groups = {}
        for rid, (a, b) in obs.items():
            k = (meta[rid]["hasSub"], a, b, acts.get(rid, True))
            groups.setdefault(k, []).append(rid)
        nid += 1
        recs.append({"t": "stack", "id": nid, "name": sc["name"], "status": status, "stack": stack, "defaults": {"a": 0, "b": 2},
                     "obs": [{"hasSub": k[0], "a": k[1], "b": k[2], "acts": k[3], "n": len(v), "example": v[0]} for k, v in sorted(groups.items())],
                     "output": out.getvalue()[-300:]})
    return recs


def cli(args, cwd=None):
    env = dict(os.environ)
    env.pop("VSG_VERIF_TRACE", None)
    env["PYTHONDONTWRITEBYTECODE"] = "1"
    p = subprocess.run([sys.executable, os.path.join(vsgenv.REPO, "bin", "vsg")] + args, stdout=subprocess.PIPE, stderr=subprocess.STDOUT, env=env, cwd=cwd, timeout=600)
    return p.returncode, p.stdout.decode(errors="replace")


def cfgerror_records(job, nid):
    recs = []
    work = job["work"]
    fname = os.path.join(work, "cfg_input.vhd")
    with open(job["input"]) as f:
        text = f.read()
    with open(fname, "w") as f:
        f.write(text)
    for name in job["names"]:
        for where in job.get("where", ["rule"]):
            if where == "rule":
                cfg = {"rule": {name: {"disable": True}}}
            elif where == "file_list":
                cfg = {"file_list": [{fname: {"rule": {name: {"disable": True}}}}]}
            else:
                cfg = {"file_rules": [{fname: {"rule": {name: {"disable": True}}}}]}
            p = os.path.join(work, "bad.json")
            with open(p, "w") as f:
                json.dump(cfg, f)
            rc, out = cli(["-f", fname, "-c", p, "-p", "1"])
            nid += 1
            recs.append({"t": "cfgerror", "id": nid, "name": name, "where": where, "exit": rc, "diagnosed": ("ERROR" in out and name in out) or ("could not be found" in out) or ("has been" in out and name in out),
                         "traceback": "Traceback (most recent call last)" in out, "output": out[-300:]})
    return recs


def flatten(d):
    out = []
    for rid, attrs in sorted(d.get("rule", {}).items()):
        for a, v in sorted(attrs.items()):
            out.append([INT.s(rid), INT.s(a), INT.s(json.dumps(v, sort_keys=True))])
    for k in ("indent", "pragma"):
        out.append([INT.s("<" + k + ">"), 0, INT.s(json.dumps(d.get(k), sort_keys=True))])
    return out


def effective(args, fname):
    """what every rule is configured to do after the real loader ran with `args`: rule id -> ((attribute, value), ...), values
    by value and in order (lists are order-sensitive: 'first matching exception wins')"""
    cla = parse_args(["-f", fname] + list(args))
    oConfig = config.New(cla)
    lines, err = vhdlFile.utils.read_vhdlfile(fname)
    oFile = vhdlFile.vhdlFile(lines, cla, fname, err, oConfig)
    oRules = rule_list.rule_list(oFile, oConfig.severity_list, None)
    apply_rules.configure_rules(oConfig, oRules, oConfig.dConfig, 0, fname)
    return dict(hooks.cfg_digest(oRules.rules))


def roundtrip_records(job, nid):
    recs = []
    work = job["work"]
    rnd = random.Random(job["seed"])
    for sc in job["scenarios"]:
        base = []
        if sc.get("style"):
            base += ["--style", sc["style"]]
        cf = []
        for k, cfg in enumerate(sc.get("configs", [])):
            p = os.path.join(work, "rt_c%d.json" % k)
            with open(p, "w") as f:
                json.dump(cfg, f)
            cf.append(p)
        if cf:
            base += ["-c"] + cf
        a, b = os.path.join(work, "oc_a.json"), os.path.join(work, "oc_b.json")
        for p in (a, b):
            if os.path.exists(p):
                os.remove(p)
        rc1, out1 = cli(base + ["-oc", a])
        status = "ok"
        oc1, oc2, rc_ok = [], [], True
        if rc1 != 0 or not os.path.exists(a):
            status = "oc1 failed: " + out1[-200:]
        else:
            rc2, out2 = cli(["-c", a, "-oc", b])
            if rc2 != 0 or not os.path.exists(b):
                status = "oc2 failed: " + out2[-200:]
            else:
                d1, d2 = json.load(open(a)), json.load(open(b))
                oc1, oc2 = flatten(d1), flatten(d2)
                for rid in rnd.sample(sorted(d1["rule"]), 3):
                    rc3, out3 = cli(base + ["-rc", rid])
                    try:
                        j = json.loads(out3[out3.index("{"):])
                        if j["rule"][rid] != d1["rule"][rid]:
                            rc_ok = False
                    except Exception:
                        rc_ok = False
        # the same EFFECTIVE configuration: what the rules hold in memory under (style, files) and under the emitted file alone
        eff_same, eff_diff = True, []
        if status == "ok" and sc.get("inputs"):
            try:
                with contextlib.redirect_stdout(io.StringIO()), contextlib.redirect_stderr(io.StringIO()):
                    e1 = effective(base, sc["inputs"][0])
                    e2 = effective(["-c", a], sc["inputs"][0])
                for rid in sorted(e1):
                    if e1[rid] != e2.get(rid):
                        eff_same = False
                        d1, d2 = dict(e1[rid]), dict(e2.get(rid, ()))
                        eff_diff += [[rid, k, repr(d1[k])[:80], repr(d2.get(k))[:80]] for k in d1 if d1[k] != d2.get(k)][:2]
            except SystemExit:
                pass
        nid += 1
        recs.append({"t": "roundtrip", "id": nid, "name": sc["name"], "status": status, "oc1": oc1, "oc2": oc2, "rcOk": rc_ok, "effSame": eff_same, "effDiff": eff_diff[:6],
                     "diff": [[INT.text(x[0]), INT.text(x[1]), INT.text(x[2])] for x in oc1 if x not in oc2][:6]})
        # behaviour: the emitted configuration reproduces the run (check + fix) on sample inputs
        if status == "ok":
            for inp in sc.get("inputs", []):
                with open(inp, encoding="utf-8", errors="replace", newline="") as f:
                    text = f.read()
                for mode in (["-ap"], ["--fix"]):
                    o1 = chkrun.run(text, mode + base, work)
                    o2 = chkrun.run(text, mode + ["-c", a], work)
                    if o1["status"] != "ok" or o2["status"] != "ok" or o1["viol"] is None or o2["viol"] is None:
                        continue
                    rid = chkrun.RuleIds()
                    nid += 1
                    recs.append({"t": "equiv", "id": nid, "clause": "C17_EmittedConfigurationReproducesRun", "file": os.path.basename(inp), "cfg": sc["name"] + " " + mode[0],
                                 "a": {"text": INT.s(o1["text"]), "reported": chkrun.vt(o1["viol"], rid), "status": bool(o1["exit"])},
                                 "b": {"text": INT.s(o2["text"]), "reported": chkrun.vt(o2["viol"], rid), "status": bool(o2["exit"])}})
    return recs


def equiv_records(job, nid):
    """C12 behaviour: a layered configuration behaves like the single-level configuration with the effective values"""
    recs = []
    work = job["work"]
    for sc in job["scenarios"]:
        with open(sc["input"], encoding="utf-8", errors="replace", newline="") as f:
            text = f.read()
        fa, fb = [], []
        for k, cfg in enumerate(sc["layered"]):
            p = os.path.join(work, "lay%d.json" % k)
            json.dump(cfg, open(p, "w"))
            fa.append(p)
        p = os.path.join(work, "flat.json")
        json.dump(sc["flat"], open(p, "w"))
        fb = [p]
        for mode in (["-ap"], ["--fix"]):
            o1 = chkrun.run(text, mode + ["-c"] + fa, work)
            o2 = chkrun.run(text, mode + ["-c"] + fb, work)
            if o1["status"] != "ok" or o2["status"] != "ok" or o1["viol"] is None or o2["viol"] is None:
                continue
            rid = chkrun.RuleIds()
            nid += 1
            recs.append({"t": "equiv", "id": nid, "clause": "C12_LayeredBehavesAsEffective", "file": os.path.basename(sc["input"]), "cfg": sc["name"] + " " + mode[0],
                         "a": {"text": INT.s(o1["text"]), "reported": chkrun.vt(o1["viol"], rid), "status": bool(o1["exit"])},
                         "b": {"text": INT.s(o2["text"]), "reported": chkrun.vt(o2["viol"], rid), "status": bool(o2["exit"])}})
    return recs


def main():
    job = json.load(open(sys.argv[1]))
    assert hooks.install()
    os.makedirs(job["work"], exist_ok=True)
    nid = job.get("first_id", 0)
    fn = {"stack": stack_records, "cfgerror": cfgerror_records, "roundtrip": roundtrip_records, "equiv": equiv_records}[job["mode"]]
    try:
        recs = fn(job, nid)
    except Exception:
        recs = [{"t": "machinery", "id": nid + 1, "tb": traceback.format_exc()}]
    with open(job["out"], "w") as f:
        json.dump({"recs": recs}, f, separators=(",", ":"))


if __name__ == "__main__":
    main()
