SPECIFICATION Spec
CONSTANTS
  NRules = 3
  Idempotent = TRUE
  Discipline = TRUE
  Canonical = TRUE
INVARIANT C09_SecondFixChangesNothing
INVARIANT C09_CleanAfterOneRun
CHECK_DEADLOCK FALSE
