------------------------------- MODULE Tokens -------------------------------
(***************************************************************************)
(* Vocabulary shared by every module of the VSG specification.             *)
(*                                                                         *)
(* A token of the in-memory model (vhdlFile.lAllObjects) is abstracted to  *)
(* a tuple of small integers                                               *)
(*      <<u, k, lit, nv, xv, r, w>>                                        *)
(*  u   unique id of the Python token object ("those very tokens")         *)
(*  k   kind        (CODE, WS, CR, BLANK, CMT, DCMT, PRAGMA, PREPROC, IGN) *)
(*  lit literal class of a code token (decides exact / caseless compare)   *)
(*  nv  interned normalised value: lower-cased unless lit is CHAR, STRING  *)
(*      or EXTID; for comments the text with blanks and tabs removed       *)
(*  xv  interned exact value                                               *)
(*  r   interned role (token class, e.g. process_statement.is_keyword)     *)
(*  w   width of the value in characters                                   *)
(* Strings are interned by the harness (harness/abstraction.py parses the  *)
(* W_* lines below, so this file is the single source of the fixed ids).   *)
(***************************************************************************)
EXTENDS Naturals, Integers, Sequences, FiniteSets, SequencesExt, FiniteSetsExt

\* ---- field positions
F_U   == 1
F_K   == 2
F_LIT == 3
F_NV  == 4
F_XV  == 5
F_R   == 6
F_W   == 7

\* ---- kinds
CODE    == 1
WS      == 2
CR      == 3
BLANK   == 4   \* zero-width parser.blank_line marker
CMT     == 5   \* "--" comment
DCMT    == 6   \* part of a /* */ comment
PRAGMA  == 7
PREPROC == 8
IGN     == 9   \* text between pragma off/on that VSG does not classify

\* ---- literal classes
L_NONE   == 0
L_CHAR   == 1
L_STRING == 2
L_EXTID  == 3
L_BITSTR == 4

ExactLits == {L_CHAR, L_STRING, L_EXTID}
CommentKinds == {CMT, DCMT, PRAGMA, PREPROC, IGN}
LayoutKinds  == {WS, CR, BLANK}

\* ---- fixed interned words (id < 1000).  Format is parsed by the harness:  W_NAME == id \* "word"
W_IS            == 1  \* "is"
W_END           == 2  \* "end"
W_COMPONENT     == 3  \* "component"
W_COLON         == 4  \* ":"
W_LPAR          == 5  \* "("
W_RPAR          == 6  \* ")"
W_COMMA         == 7  \* ","
W_SEMI          == 8  \* ";"
W_ARCHITECTURE  == 10 \* "architecture"
W_ENTITY        == 11 \* "entity"
W_PACKAGE       == 12 \* "package"
W_BODY          == 13 \* "body"
W_PROCESS       == 14 \* "process"
W_IF            == 15 \* "if"
W_CASE          == 16 \* "case"
W_LOOP          == 17 \* "loop"
W_GENERATE      == 18 \* "generate"
W_FUNCTION      == 19 \* "function"
W_PROCEDURE     == 20 \* "procedure"
W_CONFIGURATION == 21 \* "configuration"
W_CONTEXT       == 22 \* "context"
W_BLOCK         == 23 \* "block"
W_RECORD        == 24 \* "record"
W_UNITS         == 25 \* "units"
W_PROTECTED     == 26 \* "protected"
W_FOR           == 27 \* "for"
W_POSTPONED     == 28 \* "postponed"
W_ELSIF         == 30 \* "elsif"
W_WHILE         == 31 \* "while"
W_WHEN          == 32 \* "when"
W_THEN          == 33 \* "then"
W_UNTIL         == 34 \* "until"
W_ELSE          == 35 \* "else"
W_ASSERT        == 36 \* "assert"
W_REPORT        == 37 \* "report"
W_SEVERITY      == 38 \* "severity"
W_SIGNAL        == 40 \* "signal"
W_CONSTANT      == 41 \* "constant"
W_VARIABLE      == 42 \* "variable"
W_SHARED        == 43 \* "shared"
W_FILE          == 44 \* "file"
W_ASSIGN        == 45 \* ":="
W_BEGIN         == 46 \* "begin"
W_PORT          == 47 \* "port"
W_GENERIC       == 48 \* "generic"
W_MAP           == 49 \* "map"
W_LIBRARY       == 50 \* "library"
W_USE           == 51 \* "use"
W_PURE          == 52 \* "pure"
W_IMPURE        == 53 \* "impure"
W_LE            == 54 \* "<="
W_SELECT        == 55 \* "select"
W_WITH          == 56 \* "with"
W_RETURN        == 57 \* "return"
W_OF            == 58 \* "of"
W_DOT           == 59 \* "."
W_ALL           == 60 \* "all"
W_QMARK         == 61 \* "?"

\* keyword runs that may follow "end" (the "optional keyword after end")
EndKeywordSeqs == {
  <<W_ARCHITECTURE>>, <<W_ENTITY>>, <<W_PACKAGE>>, <<W_PACKAGE, W_BODY>>, <<W_PROCESS>>, <<W_POSTPONED, W_PROCESS>>,
  <<W_IF>>, <<W_CASE>>, <<W_CASE, W_QMARK>>, <<W_LOOP>>, <<W_GENERATE>>, <<W_FUNCTION>>, <<W_PROCEDURE>>, <<W_COMPONENT>>,
  <<W_CONFIGURATION>>, <<W_CONTEXT>>, <<W_BLOCK>>, <<W_RECORD>>, <<W_UNITS>>, <<W_PROTECTED>>,
  <<W_PROTECTED, W_BODY>>, <<W_FOR>> }
EndKeywords == UNION { Range(s) : s \in EndKeywordSeqs }

\* ---- projections
Proj(s, f)   == [i \in 1..Len(s) |-> s[i][f]]
Us(s)        == Proj(s, F_U)
Code(s)      == SelectSeq(s, LAMBDA t : t[F_K] = CODE)
Comments(s)  == SelectSeq(s, LAMBDA t : t[F_K] \in CommentKinds)
NoWs(s)      == SelectSeq(s, LAMBDA t : t[F_K] \notin {WS, BLANK})
NoVert(s)    == SelectSeq(s, LAMBDA t : t[F_K] \notin LayoutKinds)
\* comparison forms
KNR(s)       == [i \in 1..Len(s) |-> <<s[i][F_K], s[i][F_NV], s[i][F_R]>>]
KN(s)        == [i \in 1..Len(s) |-> <<s[i][F_K], s[i][F_NV]>>]
KXR(s)       == [i \in 1..Len(s) |-> <<s[i][F_K], s[i][F_XV], s[i][F_R]>>]
NV(s)        == Proj(s, F_NV)
XV(s)        == Proj(s, F_XV)

Splice(s, a, n, ins) == SubSeq(s, 1, a) \o ins \o SubSeq(s, a + n + 1, Len(s))

\* ---- common prefix / suffix lengths of two sequences, linear time
CommonPrefixLen(a, b) ==
  LET m == IF Len(a) < Len(b) THEN Len(a) ELSE Len(b)
      bad == {i \in 1..m : a[i] # b[i]}
  IN IF bad = {} THEN m ELSE Min(bad) - 1
CommonSuffixLen(a, b, p) ==        \* not overlapping a common prefix of length p
  LET m == (IF Len(a) < Len(b) THEN Len(a) ELSE Len(b)) - p
      bad == {i \in 1..m : a[Len(a) + 1 - i] # b[Len(b) + 1 - i]}
  IN IF bad = {} THEN m ELSE Min(bad) - 1

\* ---- lines: a line is the run of tokens up to and including its CR
CRPos(s)     == {i \in 1..Len(s) : s[i][F_K] = CR}
NumLines(s)  == Cardinality(CRPos(s))
\* line number (1-based) of position i = 1 + number of CR strictly before i
LineOfPos(s, i) == 1 + Cardinality({j \in CRPos(s) : j < i})
\* visible text of each line, as a sequence of <<k, xv>> without the zero-width BLANK markers
LineSeq(s) ==
  LET crs == SetToSortSeq(CRPos(s), <)
  IN [n \in 1..Len(crs) |->
        LET a == IF n = 1 THEN 1 ELSE crs[n-1] + 1
            b == crs[n] - 1
        IN SelectSeq([i \in 1..(b - a + 1) |-> <<s[a+i-1][F_K], s[a+i-1][F_XV], s[a+i-1][F_W]>>], LAMBDA t : t[1] # BLANK)]
=============================================================================
