SPECIFICATION Spec
CONSTANTS
  NRules = 3
  Idempotent = FALSE
  Discipline = TRUE
  Canonical = TRUE
INVARIANT C09_SecondFixChangesNothing
CHECK_DEADLOCK FALSE
