---------------------------- MODULE CheckReport ----------------------------
(***************************************************************************)
(* Design-level check of phase gating (C13): for every small rule table,   *)
(* every assignment of violations to rules, every skip set, the gated      *)
(* report is the prefix of the all-phases report up to and including the   *)
(* first phase with an error-type violation, skipped phases contribute     *)
(* nothing, and the exit contribution is "an error-type violation exists". *)
(* BreakInSubphase = TRUE is the mutant (stop inside the subphase loop).   *)
(***************************************************************************)
EXTENDS CheckOps, TLC
CONSTANTS NRules, PhaseSet, SubSet, MaxViol, BreakInSubphase
VARIABLES T, skip
vars == <<T, skip>>
RuleRecs == [id : 1..NRules, phase : PhaseSet, sub : SubSet, err : BOOLEAN, dis : BOOLEAN, nv : 0..MaxViol]
Init == /\ T \in {t \in [1..NRules -> RuleRecs] : \A i \in 1..NRules : t[i].id = i}
        /\ skip \in SUBSET PhaseSet
Next == UNCHANGED vars
Spec == Init /\ [][Next]_vars
C13_GatedIsPrefix == GatedIsPrefixB(T, skip, BreakInSubphase)
C13_WarningsNeverGate == (\A i \in 1..NRules : ~T[i].err) => ~CheckGen(T, FALSE, skip, BreakInSubphase).viol
=============================================================================
