SPECIFICATION Spec
CONSTANTS
  WholeEntry = TRUE
  ParentGroupApplies = TRUE
  OnlySingleMention = TRUE
INVARIANT C12_Precedence
CHECK_DEADLOCK FALSE
