SPECIFICATION Spec
CONSTANTS
  NRules = 3
  Idempotent = TRUE
  Discipline = FALSE
  Canonical = TRUE
INVARIANT C09_SecondFixChangesNothing
CHECK_DEADLOCK FALSE
