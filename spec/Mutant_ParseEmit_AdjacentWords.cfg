SPECIFICATION Spec
CONSTANTS
  MaxLen = 6
  RequireWordsSeparated = FALSE
INVARIANT C08_WriteIsReadIffCanonical
INVARIANT C02_CommentNeverAbsorbsCode
CHECK_DEADLOCK FALSE
