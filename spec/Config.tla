------------------------------- MODULE Config -------------------------------
(***************************************************************************)
(* Design-level check of configuration precedence (C12): every stack of    *)
(* two sources in which each section is absent or mentions attribute a, b  *)
(* or both.  The implementation's three-loop application order realises    *)
(* the documented precedence; its whole-entry replacement of a section by  *)
(* a later source does so only when no section is mentioned by two         *)
(* sources (WholeEntry = FALSE is the attribute-wise merge that would).    *)
(***************************************************************************)
EXTENDS ConfigOps, TLC
CONSTANTS WholeEntry, ParentGroupApplies, OnlySingleMention
VARIABLE c      \* c[k] in 0..3 : content of the k-th main section (1..4 source 1, 5..8 source 2); c[9..11] in 0..1 : per-file sections of source 2
Attrs == {"a", "b"}
Sec(i, k, v) ==  \* v: 0 absent, 1 {a}, 2 {b}, 3 {a, b}; values identify their origin
  LET base == i * 100 + k * 2 IN
  CASE v = 0 -> NoSec [] v = 1 -> [x \in {"a"} |-> base] [] v = 2 -> [x \in {"b"} |-> base + 1]
    [] OTHER -> [x \in {"a", "b"} |-> IF x = "a" THEN base ELSE base + 1]
Src(i, off, perFile) ==
  [s \in Range(AllSecs) |->
     CASE s = "global" -> Sec(i, 1, c[off + 1]) [] s = "gpar" -> Sec(i, 2, c[off + 2]) [] s = "gsub" -> Sec(i, 3, c[off + 3]) [] s = "rule" -> Sec(i, 4, c[off + 4])
       [] s = "fl_global" /\ perFile -> Sec(i, 25, c[9]) [] s = "fl_rule" /\ perFile -> Sec(i, 26, c[10]) [] s = "fr_rule" /\ perFile -> Sec(i, 27, c[11])
       [] OTHER -> NoSec]
stack == <<Src(1, 0, FALSE), Src(2, 4, TRUE)>>
Init == c \in {f \in [1..11 -> 0..3] : f[9] <= 1 /\ f[10] <= 1 /\ f[11] <= 1}
Next == UNCHANGED c
Spec == Init /\ [][Next]_c
C12_Precedence == (OnlySingleMention => SingleMention(stack)) =>
                     \A x \in Attrs : Agrees(stack, x, 0, WholeEntry, TRUE, ParentGroupApplies)
=============================================================================
