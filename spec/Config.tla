------------------------------- MODULE Config -------------------------------
(***************************************************************************)
(* Design-level check of configuration precedence (C12): every stack of    *)
(* two sources in which each section is absent or mentions attribute a, b  *)
(* or both.  The implementation's three-loop application order realises    *)
(* the documented precedence; its whole-entry replacement of a section by  *)
(* a later source does so only when no section is mentioned by two         *)
(* sources (WholeEntry = FALSE is the attribute-wise merge that would).    *)
(***************************************************************************)
EXTENDS ConfigOps, TLC
CONSTANTS WholeEntry, ParentGroupApplies, OnlySingleMention
VARIABLE stack
Attrs == {"a", "b"}
SecVals(i, s, k) == \* the four possible contents of section s of source i; values identify their origin
  LET base == i * 100 + k * 2 IN
  {NoSec, [x \in {"a"} |-> base], [x \in {"b"} |-> base + 1], [x \in {"a", "b"} |-> IF x = "a" THEN base ELSE base + 1]}
MainIdx(s) == CHOOSE k \in 1..4 : MainSecs[k] = s
Sources(i, perFile) ==
  {src \in [Range(AllSecs) -> UNION {SecVals(i, s, 0) : s \in Range(AllSecs)} \cup {[x \in {"a"} |-> i * 100 + 50], [x \in {"a"} |-> i * 100 + 52], [x \in {"a"} |-> i * 100 + 54]}] :
     /\ \A s \in Range(MainSecs) : src[s] \in SecVals(i, s, MainIdx(s))
     /\ src["fl_global"] \in (IF perFile THEN {NoSec, [x \in {"a"} |-> i * 100 + 50]} ELSE {NoSec})
     /\ src["fl_rule"]   \in (IF perFile THEN {NoSec, [x \in {"a"} |-> i * 100 + 52]} ELSE {NoSec})
     /\ src["fr_rule"]   \in (IF perFile THEN {NoSec, [x \in {"a"} |-> i * 100 + 54]} ELSE {NoSec})
     /\ \A s \in {"fl_gpar", "fl_gsub", "fr_global", "fr_gpar", "fr_gsub"} : src[s] = NoSec}
Init == stack \in {<<s1, s2>> : s1 \in Sources(1, FALSE), s2 \in Sources(2, TRUE)}
Next == UNCHANGED stack
Spec == Init /\ [][Next]_stack
C12_Precedence == (OnlySingleMention => SingleMention(stack)) =>
                     \A x \in Attrs : Agrees(stack, x, 0, WholeEntry, TRUE, ParentGroupApplies)
=============================================================================
