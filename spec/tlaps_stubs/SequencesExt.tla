---------------------------- MODULE SequencesExt ----------------------------
(* the one operator of the CommunityModules' SequencesExt that Main.tla uses, for tlapm (which does not ship that module) *)
LOCAL INSTANCE Sequences
LOCAL INSTANCE Naturals
Range(s) == {s[i] : i \in 1..Len(s)}
=============================================================================
