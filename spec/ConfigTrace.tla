---------------------------- MODULE ConfigTrace ----------------------------
(***************************************************************************)
(* Conformance of the real configuration loader with ConfigOps.tla (C12)   *)
(* and the --output_configuration round trip (C17).  Record types:         *)
(*  "stack"     a stack of configuration sources instantiated as real      *)
(*              files, loaded by config.New + configure_rules; obs = the   *)
(*              distinct (hasSub, a, b) outcomes over all rules            *)
(*  "cfgerror"  a configuration that names an unknown / deprecated rule    *)
(*  "roundtrip" -oc a.json ; -c a.json -oc b.json : flattened contents     *)
(*  "equiv"     two runs the property says behave alike                    *)
(***************************************************************************)
EXTENDS ConfigOps, TLC, Json, IOUtils, Integers

Data == JsonDeserialize(IOEnv.TRACE_FILE)
Recs == Data.recs
VARIABLE n
R == Recs[n]
Chk(name, k, ok) == IF ok THEN TRUE ELSE PrintT(<<"V", Recs[n].id, k, name>>)

\* a section arrives as a sequence of <<attribute, value>> pairs
SecOf(pairs) == [x \in {pairs[i][1] : i \in 1..Len(pairs)} |-> (CHOOSE p \in Range(pairs) : p[1] = x)[2]]
SrcOf(src, hasSub) == [s \in Range(AllSecs) |-> IF ~hasSub /\ s \in {"gsub", "fl_gsub", "fr_gsub"} THEN NoSec ELSE SecOf(src[s])]
StackOf(r, hasSub) == [i \in 1..Len(r.stack) |-> SrcOf(r.stack[i], hasSub)]

CheckStack(r) ==
  \A k \in 1..Len(r.obs) :
     LET o  == r.obs[k]
         st == StackOf(r, o.hasSub)
         ia == ImplValueG(StackOf(r, TRUE), "a", r.defaults.a, TRUE, TRUE, TRUE, o.hasSub)
         ib == ImplValueG(StackOf(r, TRUE), "b", r.defaults.b, TRUE, TRUE, TRUE, o.hasSub)
         ra == RefValues(st, "a", r.defaults.a)
         rb == RefValues(st, "b", r.defaults.b)
     IN \* outside the documented precedence AND not explained by the whole-entry replacement of process_config_file
        /\ Chk("C12_Precedence", k, (o.a \in ra \/ o.a = ia) /\ (o.b \in rb \/ o.b = ib))
        \* outside the documented precedence because a later source replaced a whole section (known behaviour of the loader)
        /\ Chk("C12_PrecedenceEntryReplaced", k, ~((o.a \notin ra /\ o.a = ia) \/ (o.b \notin rb /\ o.b = ib)))
        /\ Chk("C12_ActsOnEffectiveValue", k, o.acts)
        /\ Chk("DRIFT_ImplModel", k, o.a = ia /\ o.b = ib)

CheckCfgError(r) ==
  /\ Chk("C12_UnknownRuleRejected", 0, r.diagnosed /\ r.exit # 0)
  /\ Chk("C19_NoCrash", 0, ~r.traceback)

CheckRoundTrip(r) ==
  /\ Chk("C17_SecondEmissionIdentical", 0, Range(r.oc1) = Range(r.oc2))
  /\ Chk("C17_RuleConfigurationMatches", 0, r.rcOk)
  \* what every rule holds in memory (every configurable attribute, by value, lists in order) under the original
  \* style + files equals what it holds under the emitted file alone
  /\ Chk("C17_SameEffectiveConfiguration", 0, r.effSame)
  /\ Chk("C19_NoCrash", 0, r.status = "ok")

CheckEquiv(r) ==
  /\ Chk(r.clause \o "_Text", 0, r.a.text = r.b.text)
  /\ Chk(r.clause \o "_Report", 0, Range(r.a.reported) = Range(r.b.reported))
  /\ Chk(r.clause \o "_Status", 0, r.a.status = r.b.status)

Init == /\ n \in 1..Len(Recs)
        /\ CASE R.t = "stack" -> CheckStack(R)
             [] R.t = "cfgerror" -> CheckCfgError(R)
             [] R.t = "roundtrip" -> CheckRoundTrip(R)
             [] R.t = "equiv" -> CheckEquiv(R)
             [] OTHER -> Chk("B_UnknownRecord", 0, FALSE)
Next == FALSE /\ n' = n
Spec == Init /\ [][Next]_n
=============================================================================
