--------------------------- MODULE RelayoutTrace ---------------------------
(***************************************************************************)
(* Two runs of the real classifier, on a file and on a re-layout of it     *)
(* (C05).  roles / code: per code token the interned role and normalised   *)
(* spelling, in file order.                                                *)
(***************************************************************************)
EXTENDS Naturals, Sequences, FiniteSets, FiniteSetsExt, TLC, Json, IOUtils
Data == JsonDeserialize(IOEnv.TRACE_FILE)
Recs == Data.recs
VARIABLE n
R == Recs[n]
Chk(name, k, ok) == IF ok THEN TRUE ELSE PrintT(<<"V", Recs[n].id, k, name>>)
FirstDiff(a, b) == LET m == IF Len(a) < Len(b) THEN Len(a) ELSE Len(b)
                       bad == {i \in 1..m : a[i] # b[i]}
                   IN IF bad = {} THEN m + 1 ELSE Min(bad)
Check(r) ==
  /\ Chk("C05_RelayoutAccepted", 0, r.accepted)
  /\ (r.accepted => /\ Chk("C05_SameCodeTokens", FirstDiff(r.code0, r.code1), r.code0 = r.code1)
                    /\ Chk("C05_RolesInvariant", FirstDiff(r.roles0, r.roles1), r.code0 # r.code1 \/ r.roles0 = r.roles1))
Init == n \in 1..Len(Recs) /\ Check(R)
Next == FALSE /\ n' = n
Spec == Init /\ [][Next]_n
=============================================================================
