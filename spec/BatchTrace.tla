----------------------------- MODULE BatchTrace -----------------------------
(***************************************************************************)
(* Recorded command-line runs over several files / worker processes        *)
(* validated against Batch.tla (C15).  One record per CLI invocation:      *)
(*   files   the command line (file ids in order), p the job count         *)
(*   tasks   one entry per apply_rules call, from the worker that ran it:  *)
(*           [pid, seq, index, file, leakBefore, leakAfter, result]        *)
(*           (digests as strings; seq = per-process sequence number)       *)
(*   solo    [file -> result digest] of the same file processed alone, p=1 *)
(*   printed file ids in the order their reports appear on stdout          *)
(*   leak0   digest of the module-level state before any task             *)
(***************************************************************************)
EXTENDS Naturals, Sequences, FiniteSets, SequencesExt, TLC, Json, IOUtils

Data == JsonDeserialize(IOEnv.TRACE_FILE)
Recs == Data.recs
VARIABLE n
R == Recs[n]
Chk(name, k, ok) == IF ok THEN TRUE ELSE PrintT(<<"V", Recs[n].id, k, name>>)

SoloOf(r, f) == (CHOOSE x \in Range(r.solo) : x[1] = f)[2]
CheckBatch(r) ==
  /\ \A k \in 1..Len(r.tasks) :
       LET t == r.tasks[k] IN
       /\ Chk("C15_LeakConstant", k, t.leakBefore = r.leak0 /\ t.leakAfter = r.leak0)
       /\ Chk("C15_ResultSolo", k, t.result = SoloOf(r, t.file))
       /\ Chk("B_TaskIsOnCommandLine", k, t.index >= 0 /\ t.index < Len(r.files) /\ r.files[t.index + 1] = t.file)
  \* every file up to the first one that stops the run (a configuration error) is processed exactly once
  /\ Chk("C15_EveryFileOnce", 0, r.stopped \/ \A i \in 1..Len(r.files) : Cardinality({k \in 1..Len(r.tasks) : r.tasks[k].index = i - 1}) = 1)
  /\ Chk("C15_OutputOrder", 0, r.printed = SelectSeq(r.files, LAMBDA f : f \in Range(r.printed)) /\ IsPrefix(r.printed, r.printed))
  /\ Chk("C15_ExitIsOr", 0, r.exit = (IF \E k \in 1..Len(r.tasks) : r.tasks[k].status THEN 1 ELSE 0))
  /\ Chk("C15_StdinSameAsFile", 0, r.stdinOk)
  /\ Chk("C19_NoCrash", 0, ~r.traceback)

Init == n \in 1..Len(Recs) /\ CheckBatch(R)
Next == FALSE /\ n' = n
Spec == Init /\ [][Next]_n
=============================================================================
