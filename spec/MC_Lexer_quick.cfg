SPECIFICATION Spec
CONSTANTS
  PipeIsDelimiter = TRUE
  MaxLen = 4
  Alphabet = {1,2,3,4,5,6,7,8,9,10,11,12,13,14,15,16,17,18,19,20,21,22,23}
INVARIANT C04_Lossless
INVARIANT Final_NoEmptyChunk
INVARIANT Final_BlankRunsWhole
INVARIANT Final_BlanksPure
INVARIANT C05_DelimitersSeparate
PROPERTY RefinesContract
CHECK_DEADLOCK FALSE
