----------------------------- MODULE MainTrace -----------------------------
(***************************************************************************)
(* Recorded command-line runs validated against Main.tla.                  *)
(*                                                                         *)
(* A record is one invocation of the real command line.  What is recorded  *)
(* has NO global order: every process (the parent with -p 1, the pool      *)
(* workers otherwise) logs its own apply_rules calls under a per-process   *)
(* sequence number (B = entered, E = returned, with the result's status /  *)
(* stop flag and whether the file's bytes changed), the parent's standard  *)
(* output and standard error give the order in which reports were printed. *)
(* TLC searches for an interleaving of these sequences that is a behaviour *)
(* of Main (Dispatch / Finish / Collect / EndRun / Finalize); a record for *)
(* which there is none is reported as C15_NoScheduleExplains.  Content is  *)
(* judged by named clauses, the model continues from the logged values.    *)
(*                                                                         *)
(*  rec = [id, jobs, fix, files : Seq([cls, err, dirty])  (from the solo   *)
(*         run of each file), procs : Seq(Seq([t, i, status, stop, wrote])),*)
(*         out, err : Seq(index) as printed on stdout / stderr,            *)
(*         exit, junit, json : Seq(index), disk : Seq("orig"|"fixed"|..)]  *)
(***************************************************************************)
EXTENDS Naturals, Sequences, FiniteSets, SequencesExt, TLC, Json, IOUtils

Data == JsonDeserialize(IOEnv.TRACE_FILE)
Recs == Data.recs

VARIABLES n, pos, opos, epos,
          files, jobs, fix, next, busy, res, disk, coll, stopped, pc, exit, arte
mvars == <<files, jobs, fix, next, busy, res, disk, coll, stopped, pc, exit, arte>>
tvars == <<n, pos, opos, epos>>

M == INSTANCE Main WITH MaxFiles <- 16, JobSet <- {1}, InOrderCollect <- TRUE, ExitIsOr <- TRUE, PerFileCfgErr <- TRUE

R == Recs[n]
Increasing(s) == \A k \in 1..(Len(s) - 1) : s[k] < s[k + 1]
Chk(name, k, ok) == IF ok THEN TRUE ELSE PrintT(<<"V", R.id, k, name>>)
NP == Len(R.procs)

TInit ==
  /\ TLCSet(1, {})
  /\ n \in 1..Len(Recs)
  /\ files = Recs[n].files /\ fix = Recs[n].fix
  /\ jobs = IF Len(Recs[n].procs) > Recs[n].jobs THEN Len(Recs[n].procs) ELSE Recs[n].jobs
  /\ next = 1
  /\ busy = [w \in 1..jobs |-> 0]
  /\ res = [i \in 1..Len(files) |-> M!NoRes]
  /\ disk = [i \in 1..Len(files) |-> "orig"]
  /\ coll = <<>> /\ stopped = FALSE /\ pc = "run" /\ exit = 2 /\ arte = <<>>
  /\ pos = [w \in 1..Len(Recs[n].procs) |-> 1] /\ opos = 1 /\ epos = 1
  /\ Chk("B_WorkersWithinJobs", 0, Len(Recs[n].procs) <= Recs[n].jobs)
  \* reports appear in command-line order (each stream; how the two streams interleave cannot be observed: the search
  \* merges them, in order)
  /\ Chk("C15_OutputOrder", 0, Increasing(Recs[n].out) /\ Increasing(Recs[n].err))

Ev(w) == R.procs[w][pos[w]]
Adv(w) == pos' = [pos EXCEPT ![w] = @ + 1] /\ UNCHANGED <<n, opos, epos>>

\* a process entered apply_rules for task i: tasks are handed out in command-line order
TBegin(w) ==
  /\ pos[w] <= Len(R.procs[w]) /\ Ev(w).t = "B"
  /\ next = Ev(w).i
  /\ M!Dispatch(w)
  /\ Adv(w)

\* apply_rules returned
TEnd(w) ==
  /\ pos[w] <= Len(R.procs[w]) /\ Ev(w).t = "E"
  /\ busy[w] = Ev(w).i
  /\ LET o == [status |-> Ev(w).status, stop |-> Ev(w).stop, wrote |-> Ev(w).wrote, none |-> FALSE] IN
       /\ Chk("C15_ResultSolo", Ev(w).i, o = M!Outcome(files[Ev(w).i], fix))
       /\ Chk("C16_RejectedUntouched", Ev(w).i, files[Ev(w).i].cls # "ok" => ~o.wrote)
       /\ Chk("C04_NoFixNoWrite", Ev(w).i, ~fix => ~o.wrote)
       /\ M!FinishWith(w, o)
  /\ Adv(w)

\* a worker whose log ends inside a task (abandoned when the pool was terminated) may have written the file already
TSilentWrite(w) ==
  /\ pos[w] > Len(R.procs[w]) /\ busy[w] # 0
  /\ M!WriteBack(w)
  /\ UNCHANGED tvars

\* the parent printed the report of task i (stdout: a checked file; stderr: a rejected or misconfigured one)
TCollectOut ==
  /\ opos <= Len(R.out)
  /\ LET i == R.out[opos] IN
       /\ M!CollectI(i)
       /\ Chk("B_StdoutIsOk", i, files[i].cls = "ok")
  /\ opos' = opos + 1 /\ UNCHANGED <<n, pos, epos>>
TCollectErr ==
  /\ epos <= Len(R.err)
  /\ LET i == R.err[epos] IN
       /\ M!CollectI(i)
       /\ Chk("B_StderrIsError", i, files[i].cls # "ok")
  /\ epos' = epos + 1 /\ UNCHANGED <<n, pos, opos>>

AllConsumed == /\ \A w \in 1..NP : pos[w] > Len(R.procs[w])
               /\ opos > Len(R.out) /\ epos > Len(R.err)
TEndRun == /\ AllConsumed /\ M!EndRun /\ UNCHANGED tvars
TFinalize ==
  /\ AllConsumed /\ M!Finalize
  /\ Chk("C14_ExitIsOr", 0, R.exit = exit')
  /\ Chk("C14_ArtefactsAreCollected", 0, R.junit = arte' /\ R.json = arte')
  /\ Chk("C15_ReportAsSerial", 0, coll = M!SerialColl(files) /\ R.exit = M!SerialExit(files, fix))
  /\ Chk("C15_DiskAsSerial", 0, R.disk = M!SerialDisk(files, fix))
  /\ Chk("C16_TargetOrigOrFixed", 0, \A i \in 1..Len(files) : R.disk[i] \in {"orig", "fixed"})
  /\ Chk("C20_AllIsPlainFix", 0, \A i \in 1..Len(R.foSame) : R.foSame[i])       \* --fix_only listing every rule with "all", several files: each ends as after a plain --fix
  /\ Chk("C19_RejectedGoesOn", 0, \A i \in 1..Len(files) : (\A j \in 1..(i - 1) : files[j].cls # "cfgerr") => i \in Range(coll))
  /\ R.disk = disk            \* (hard: chooses the interleaving in which abandoned workers wrote what the disk shows)
  /\ TLCSet(1, TLCGet(1) \cup {n})
  /\ PrintT(<<"DONE", R.id, 1>>)
  /\ UNCHANGED tvars

TNext == (\E w \in 1..NP : TBegin(w) \/ TEnd(w) \/ TSilentWrite(w)) \/ TCollectOut \/ TCollectErr \/ TEndRun \/ TFinalize
TSpec == TInit /\ [][TNext]_<<mvars, tvars>>

\* acceptance: for every record some interleaving reached Finalize
Accepted == \A k \in 1..Len(Recs) : IF k \in TLCGet(1) THEN TRUE ELSE PrintT(<<"V", Recs[k].id, 0, "C15_NoScheduleExplains">>)
=============================================================================
