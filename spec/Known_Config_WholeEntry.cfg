SPECIFICATION Spec
CONSTANTS
  WholeEntry = TRUE
  ParentGroupApplies = TRUE
  OnlySingleMention = FALSE
INVARIANT C12_Precedence
CHECK_DEADLOCK FALSE
