-------------------------------- MODULE Main --------------------------------
(***************************************************************************)
(* The command line as a whole (vsg/__main__.py main + apply_rules): one   *)
(* parent process, a list of files in command-line order, and either the   *)
(* parent itself (-p 1) or a pool of worker processes (multiprocessing     *)
(* Pool.imap) running apply_rules on them.  System-level statement of      *)
(* C15 (jobs / order / neighbours), of the exit-status sentence of C14, of *)
(* "a rejected file ... goes on to the remaining files" (C19), of "a file  *)
(* that fails to parse or configure is never modified" (C16) and of "any   *)
(* run without --fix leaves the file untouched" (C04).                     *)
(*                                                                         *)
(* One action per step the code takes:                                     *)
(*   Dispatch(w)  a free worker takes the next task, in command-line order *)
(*                (imap hands tasks out in order; with -p 1 the parent is  *)
(*                the only worker and takes a task only after it has       *)
(*                printed the previous one)                                *)
(*   WriteBack(w) (inside apply_rules) the fixed text replaces the file     *)
(*   Finish(w)    apply_rules returns: the result tuple exists, and - if   *)
(*                --fix and the file was accepted, configured and had      *)
(*                something to fix - the file on disk is the fixed one     *)
(*   Collect      the parent consumes the next result IN ORDER, prints its *)
(*                report; a result that carries the stop flag (a           *)
(*                configuration error) makes it leave the loop             *)
(*   EndRun       the loop is left (everything collected, or stop): the    *)
(*                pool is terminated, workers still busy are abandoned     *)
(*   Finalize     exit status = OR of the collected statuses; JUnit / JSON *)
(*                entries = the collected results in order                 *)
(*                                                                         *)
(* A file is abstracted to what decides its result:                        *)
(*   cls   "ok" | "rejected" (ClassifyError) | "cfgerr" (ConfigurationError*)
(*   err   an error-type violation is reported for it (after fixing)       *)
(*   dirty --fix changes its text                                          *)
(*                                                                         *)
(* Switches (mechanisms; the mutant configs turn one off):                 *)
(*   InOrderCollect  imap (TRUE) vs imap_unordered (FALSE)                 *)
(*   ExitIsOr        exit status ORs every collected status (TRUE) vs the  *)
(*                   last one only (FALSE)                                 *)
(*   PerFileCfgErr   a configuration error may hit one file and not its    *)
(*                   neighbours (file_list / file_rules sections); FALSE:  *)
(*                   a configuration error is global (hits every file)     *)
(***************************************************************************)
EXTENDS Naturals, Sequences, FiniteSets, SequencesExt, TLC

CONSTANTS MaxFiles, JobSet, InOrderCollect, ExitIsOr, PerFileCfgErr

VARIABLES files,     \* the command line: sequence of [cls, err, dirty]
          jobs, fix, \* -p, --fix
          next,      \* index of the next task to hand out
          busy,      \* busy[w] = index of the task worker w is running, 0 = free
          res,       \* res[i] = result of task i, NoRes before it exists
          disk,      \* disk[i] \in {"orig", "fixed"}
          coll,      \* sequence of task indexes the parent has consumed, in the order it consumed (and printed) them
          stopped,   \* the parent has seen a stop flag
          pc,        \* "run" | "final" | "done"
          exit,      \* exit status (-1: none yet; modelled as 2)
          arte       \* JUnit / JSON entries: sequence of task indexes
vars == <<files, jobs, fix, next, busy, res, disk, coll, stopped, pc, exit, arte>>

NoRes == [status |-> FALSE, stop |-> FALSE, wrote |-> FALSE, none |-> TRUE]
N == Len(files)
Workers == 1..jobs            \* with jobs = 1 worker 1 is the parent itself

FileRecs == {[cls |-> "ok", err |-> e, dirty |-> d] : e \in BOOLEAN, d \in BOOLEAN}
             \cup {[cls |-> "rejected", err |-> FALSE, dirty |-> FALSE], [cls |-> "cfgerr", err |-> FALSE, dirty |-> FALSE]}

\* what apply_rules returns for a file, and whether it rewrites it
Outcome(f, fx) ==
  CASE f.cls = "rejected" -> [status |-> TRUE,  stop |-> FALSE, wrote |-> FALSE, none |-> FALSE]
    [] f.cls = "cfgerr"   -> [status |-> TRUE,  stop |-> TRUE,  wrote |-> FALSE, none |-> FALSE]
    [] OTHER              -> [status |-> f.err, stop |-> FALSE, wrote |-> fx /\ f.dirty, none |-> FALSE]

Init == /\ \E n \in 1..MaxFiles : files \in [1..n -> FileRecs]
        /\ (~PerFileCfgErr => (\A i \in 1..Len(files) : files[i].cls = "cfgerr") \/ (\A i \in 1..Len(files) : files[i].cls # "cfgerr"))
        /\ jobs \in JobSet /\ fix \in BOOLEAN
        /\ next = 1
        /\ busy = [w \in 1..jobs |-> 0]
        /\ res = [i \in 1..Len(files) |-> NoRes]
        /\ disk = [i \in 1..Len(files) |-> "orig"]
        /\ coll = <<>> /\ stopped = FALSE /\ pc = "run" /\ exit = 2 /\ arte = <<>>

Dispatch(w) ==
  /\ pc = "run" /\ busy[w] = 0 /\ next <= N
  /\ (jobs = 1 => ~stopped /\ Len(coll) = next - 1)      \* the serial loop: one file at a time, break on stop
  /\ busy' = [busy EXCEPT ![w] = next]
  /\ next' = next + 1
  /\ UNCHANGED <<files, jobs, fix, res, disk, coll, stopped, pc, exit, arte>>

\* inside apply_rules the fixed text replaces the file BEFORE the final check and the return: a worker that is abandoned
\* when the pool is terminated may already have written
WriteBack(w) ==
  /\ pc = "run" /\ busy[w] # 0
  /\ Outcome(files[busy[w]], fix).wrote /\ disk[busy[w]] = "orig"
  /\ disk' = [disk EXCEPT ![busy[w]] = "fixed"]
  /\ UNCHANGED <<files, jobs, fix, next, busy, res, coll, stopped, pc, exit, arte>>
\* (FinishWith / CollectI: the same steps with the outcome / the index given - the trace specification binds them to the log)
FinishWith(w, o) ==
  /\ pc = "run" /\ busy[w] # 0
  /\ LET i == busy[w] IN
       /\ res' = [res EXCEPT ![i] = o]
       /\ disk' = [disk EXCEPT ![i] = IF o.wrote THEN "fixed" ELSE @]
  /\ busy' = [busy EXCEPT ![w] = 0]
  /\ UNCHANGED <<files, jobs, fix, next, coll, stopped, pc, exit, arte>>
Finish(w) == busy[w] # 0 /\ FinishWith(w, Outcome(files[busy[w]], fix))

Collectable(i) == /\ i \in 1..N /\ ~res[i].none /\ i \notin Range(coll)
                  /\ (InOrderCollect => i = Len(coll) + 1)
CollectI(i) ==
  /\ pc = "run" /\ ~stopped
  /\ Collectable(i)
  /\ coll' = Append(coll, i)
  /\ stopped' = res[i].stop
  /\ UNCHANGED <<files, jobs, fix, next, busy, res, disk, pc, exit, arte>>
Collect == \E i \in 1..N : CollectI(i)

EndRun ==
  /\ pc = "run" /\ (stopped \/ Len(coll) = N)
  /\ pc' = "final"
  /\ busy' = [w \in 1..jobs |-> 0]          \* Pool.__exit__ terminates the workers; a task in progress is abandoned
  /\ UNCHANGED <<files, jobs, fix, next, res, disk, coll, stopped, exit, arte>>

Finalize ==
  /\ pc = "final"
  /\ exit' = IF ExitIsOr THEN (IF \E k \in 1..Len(coll) : res[coll[k]].status THEN 1 ELSE 0)
             ELSE (IF coll # <<>> /\ res[coll[Len(coll)]].status THEN 1 ELSE 0)
  /\ arte' = coll
  /\ pc' = "done"
  /\ UNCHANGED <<files, jobs, fix, next, busy, res, disk, coll, stopped>>

Next == (\E w \in 1..jobs : Dispatch(w) \/ WriteBack(w) \/ Finish(w)) \/ Collect \/ EndRun \/ Finalize
Fairness == WF_vars(Next)
Spec == Init /\ [][Next]_vars
FairSpec == Spec /\ Fairness

(***************************************************************************)
(* What a run with ONE job, one file at a time, does - as pure operators   *)
(* of the command line.  "The same whether one job or many".               *)
(***************************************************************************)
StopIndex(fs) == LET c == {i \in 1..Len(fs) : fs[i].cls = "cfgerr"} IN IF c = {} THEN Len(fs) ELSE CHOOSE i \in c : \A j \in c : i <= j
SerialColl(fs) == [k \in 1..StopIndex(fs) |-> k]
SerialExit(fs, fx) == IF \E k \in 1..StopIndex(fs) : Outcome(fs[k], fx).status THEN 1 ELSE 0
SerialDisk(fs, fx) == [i \in 1..Len(fs) |-> IF i <= StopIndex(fs) /\ Outcome(fs[i], fx).wrote THEN "fixed" ELSE "orig"]

TypeOK == /\ pc \in {"run", "final", "done"} /\ next \in 1..(N + 1) /\ exit \in {0, 1, 2}
          /\ \A w \in 1..jobs : busy[w] \in 0..N
C15_OutputOrder     == \A k \in 1..Len(coll) : coll[k] = k
C15_ResultSolo      == \A i \in 1..N : ~res[i].none => res[i] = Outcome(files[i], fix)
C15_ReportAsSerial  == pc = "done" => coll = SerialColl(files) /\ arte = SerialColl(files) /\ exit = SerialExit(files, fix)
C15_DiskAsSerial    == pc = "done" => disk = SerialDisk(files, fix)
C14_ExitIsOr        == pc = "done" => (exit = 0 <=> \A k \in 1..Len(coll) : ~res[coll[k]].status)
C14_ArtefactsAreCollected == pc = "done" => arte = coll
C19_RejectedGoesOn  == pc = "done" => \A i \in 1..N : (\A j \in 1..(i - 1) : files[j].cls # "cfgerr") => i \in Range(coll)
C16_RejectedUntouched == \A i \in 1..N : files[i].cls # "ok" => disk[i] = "orig"
C04_NoFixNoWrite    == \A i \in 1..N : (~fix \/ ~files[i].dirty) => disk[i] = "orig"
C15_EveryTaskOnce   == \A w1, w2 \in 1..jobs : (w1 # w2 /\ busy[w1] # 0) => busy[w1] # busy[w2]
C19_Terminates      == <>(pc = "done")
=============================================================================
