SPECIFICATION Spec
CONSTANTS
  Files = {"f1", "f2", "f3", "f4"}
  Workers = {"w1", "w2", "w3"}
  LeakFree = FALSE
INVARIANT C15_LeakConstant
INVARIANT C15_ResultSolo
INVARIANT C15_OutputOrder
CHECK_DEADLOCK FALSE
