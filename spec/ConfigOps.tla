----------------------------- MODULE ConfigOps -----------------------------
(***************************************************************************)
(* Configuration layers and precedence (properties C12, C17).              *)
(*                                                                         *)
(* A configuration STACK is a sequence of sources in the order VSG reads   *)
(* them: the style file, then the -c files left to right.  A source is a   *)
(* record of SECTIONS; a section is a set of attribute assignments         *)
(*      section = [attribute -> value]   (a function with a finite domain) *)
(* sections of the main part:   global, gpar (a parent rule group), gsub   *)
(*   (a sub group  parent::sub), rule (the rule's own entry)               *)
(* sections applied per file:   fl_global fl_gpar fl_gsub fl_rule  (the    *)
(*   file_list entry of the file) and fr_* (its file_rules entry)          *)
(* An absent section is the empty function <<>>... represented as NoSec.   *)
(*                                                                         *)
(* Reference (documentation + property C12): an attribute takes the value  *)
(* of the highest-priority LEVEL that mentions it                          *)
(*      file_rules > file_list > rule > group > global > default           *)
(* and inside a level the LAST source that mentions it.                    *)
(*                                                                         *)
(* Implementation: transcription of config.process_config_file (a later    *)
(* source REPLACES the whole section of an earlier one), of the three      *)
(* loops of rule.py (global, group, rule - in that order, each assignment  *)
(* overwriting) and of apply_rules.configure_rules (file_list, then        *)
(* file_rules, each again global/group/rule).                              *)
(***************************************************************************)
EXTENDS Naturals, Sequences, FiniteSets, SequencesExt, FiniteSetsExt

NoSec == [x \in {} |-> 0]
MainSecs == <<"global", "gpar", "gsub", "rule">>
FLSecs   == <<"fl_global", "fl_gpar", "fl_gsub", "fl_rule">>
FRSecs   == <<"fr_global", "fr_gpar", "fr_gsub", "fr_rule">>
AllSecs  == MainSecs \o FLSecs \o FRSecs
Mentions(sec, a) == a \in DOMAIN sec

\* ---------------------------------------------------------------- reference
\* levels from lowest to highest priority; gpar and gsub are one level (group)
Levels == << {"global"}, {"gpar", "gsub"}, {"rule"}, {"fl_global"}, {"fl_gpar", "fl_gsub"}, {"fl_rule"}, {"fr_global"}, {"fr_gpar", "fr_gsub"}, {"fr_rule"} >>
\* the per-file sections live in ONE source (the one whose file_list / file_rules names the file); the main ones in all
LevelMentions(stack, lv, a) == {<<i, s>> \in (1..Len(stack)) \X Levels[lv] : Mentions(stack[i][s], a)}
\* the set of values the reference allows (two groups of one level mentioning a in the same source: either order)
RefValues(stack, a, default) ==
  LET lvs == {lv \in 1..Len(Levels) : LevelMentions(stack, lv, a) # {}}
  IN IF lvs = {} THEN {default}
     ELSE LET top  == Max(lvs)
              ms   == LevelMentions(stack, top, a)
              \* within the level: per section the last source that mentions a (the relative order of a parent group and
              \* one of its sub groups is not documented: either may win)
              secs == {m[2] : m \in ms}
              lastOf(sec) == Max({m[1] : m \in {x \in ms : x[2] = sec}})
          IN {stack[lastOf(sec)][sec][a] : sec \in secs}

\* ---------------------------------------------------------------- implementation
\* process_config_file: for the "rule" part every key (global, group, <rule id>) of a later source replaces the earlier
\* entry as a whole.  "group" is ONE key: the later source's group entry replaces parent and sub group sections together.
Merge(stack, wholeEntry) ==
  LET pick(secs) ==       \* last source that has any of the sections `secs` as a unit
        LET have == {i \in 1..Len(stack) : \E s \in secs : stack[i][s] # NoSec} IN IF have = {} THEN 0 ELSE Max(have)
      attrwise(s) ==      \* the alternative: attribute by attribute, later sources override
        FoldLeft(LAMBDA acc, src : [x \in DOMAIN acc \cup DOMAIN src[s] |-> IF x \in DOMAIN src[s] THEN src[s][x] ELSE acc[x]], NoSec, stack)
  IN IF wholeEntry
     THEN [s \in Range(AllSecs) |->
             LET unit == IF s \in {"gpar", "gsub"} THEN {"gpar", "gsub"}
                         ELSE IF s \in Range(FLSecs) THEN Range(FLSecs)
                         ELSE IF s \in Range(FRSecs) THEN Range(FRSecs) ELSE {s}
                  i == pick(unit)
             IN IF i = 0 THEN NoSec ELSE stack[i][s]]
     ELSE [s \in Range(AllSecs) |-> attrwise(s)]

\* rule.configure: global, then the groups (in the order the configuration lists them: parent before sub here), then the
\* rule's own entry; afterwards the same three for the file_list entry and for the file_rules entry.
\*   inConf: the attribute is in rule.configuration (needed at the global level); groupsReach: FALSE models "only the most
\*   specific group is applied" (a mutant)
ImplValueG(stack, a, default, wholeEntry, inConf, parentGroupApplies, hasSub) ==
  LET m == Merge(stack, wholeEntry)
      apply(v, s) == IF Mentions(m[s], a) THEN m[s][a] ELSE v
      order == <<"global", "gpar", "gsub", "rule", "fl_global", "fl_gpar", "fl_gsub", "fl_rule", "fr_global", "fr_gpar", "fr_gsub", "fr_rule">>
      usable(s) == /\ (s \in {"gsub", "fl_gsub", "fr_gsub"} => hasSub)        \* a sub group section only reaches rules of that sub group
                   /\ (s \in {"global", "fl_global", "fr_global"} => inConf)
                   /\ (s \in {"gpar", "fl_gpar", "fr_gpar"} => (parentGroupApplies \/ m[IF s = "gpar" THEN "gsub" ELSE IF s = "fl_gpar" THEN "fl_gsub" ELSE "fr_gsub"] = NoSec))
  IN FoldLeft(LAMBDA v, s : IF usable(s) THEN apply(v, s) ELSE v, default, order)

ImplValue(stack, a, default, wholeEntry, inConf, pga) == ImplValueG(stack, a, default, wholeEntry, inConf, pga, TRUE)

\* C12 for one attribute
Agrees(stack, a, default, wholeEntry, inConf, pga) == ImplValue(stack, a, default, wholeEntry, inConf, pga) \in RefValues(stack, a, default)
\* a stack in which no section is mentioned by two sources (there whole-entry and attribute-wise merging coincide)
SingleMention(stack) == \A s \in Range(AllSecs) : Cardinality({i \in 1..Len(stack) : stack[i][s] # NoSec}) <= 1
                        /\ Cardinality({i \in 1..Len(stack) : stack[i]["gpar"] # NoSec \/ stack[i]["gsub"] # NoSec}) <= 1
=============================================================================
