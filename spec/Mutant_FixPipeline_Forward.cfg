SPECIFICATION Spec
CONSTANTS
  MaxLen = 4
  MaxSteps = 1
  ReverseSplice = FALSE
  AnchorsOnly = TRUE
  RemapDiscipline = TRUE
  CaseSparesLits = TRUE
INVARIANT C18_StepIsSumOfHunks
INVARIANT C18_NoCollateral
INVARIANT C18_IndexAgrees
INVARIANT C01_CodePreserved
INVARIANT C01_OnlyStructural
INVARIANT C02_CommentsPreserved
INVARIANT C03_PhaseClass
INVARIANT C07_LinesTouched
CHECK_DEADLOCK FALSE
