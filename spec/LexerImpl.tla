----------------------------- MODULE LexerImpl -----------------------------
(***************************************************************************)
(* The tokenizer of LexerOps.tla (transcription of vsg/tokens.py) as a     *)
(* state machine, one pass per step, over every string up to MaxLen.       *)
(***************************************************************************)
EXTENDS LexerOps

(***************************************************************************)
(* The state machine: one pass per step                                    *)
(***************************************************************************)
CONSTANTS MaxLen, Alphabet
VARIABLES input, chunks, pc
vars == <<input, chunks, pc>>

Strings(n) == UNION {[1..m -> Alphabet] : m \in 0..n}
Init == /\ input \in Strings(MaxLen)
        /\ chunks = Chars0(input)
        /\ pc = 0
Next == /\ pc < 9
        /\ chunks' = Pass(pc + 1, chunks)
        /\ pc' = pc + 1
        /\ UNCHANGED input
Spec == Init /\ [][Next]_vars

\* ---- C04: join(tokenize(s)) = s, after every pass
C04_Lossless == Flatten(chunks) = input
\* what the classifier relies on in the final chunk list
Final_NoEmptyChunk    == pc = 9 => \A i \in 1..Len(chunks) : chunks[i] # <<>>
Final_BlankRunsWhole  == pc = 9 => \A i \in 1..(Len(chunks) - 1) : ~(IsSpaceStr(chunks[i]) /\ IsSpaceStr(chunks[i + 1]))
Final_BlanksPure      == pc = 9 => \A i \in 1..Len(chunks) : (\E k \in 1..Len(chunks[i]) : IsSpaceChar(chunks[i][k])) =>
                                       (IsSpaceStr(chunks[i]) \/ DQ \in Range(chunks[i]) \/ BSL \in Range(chunks[i]) \/ SQ \in Range(chunks[i]))

\* C05, lexical level (see LexerOps): delimiters separate with or without blanks around them
C05_DelimitersSeparate == (pc = 9 /\ QuoteFree(input)) => DelimsSeparate(chunks)

L == INSTANCE Lexer
RefinesContract == L!Spec
=============================================================================
