----------------------------- MODULE WriteBack -----------------------------
(***************************************************************************)
(* Design-level model of the write-back protocol (C16): the protocol of    *)
(* WriteBackOps.tla issues the calls, the environment chooses every        *)
(* outcome, the process may be killed between any two calls.               *)
(***************************************************************************)
EXTENDS WriteBackOps

(***************************************************************************)
(* Design-level model: the protocol generates the calls, every outcome     *)
(***************************************************************************)
CONSTANTS OrigModes, CreateModes, StaleModes, MaxChunks,
          ChmodBeforeReplace,    \* mechanism: chmod(tmp, original mode) precedes os.replace
          ViaTemporary           \* mechanism: the text is written to <file>.tmp and renamed (FALSE: written in place)

VARIABLES disk, pc, origMode, createMode, backup, chunks, killed, tmp0
vars == <<disk, pc, origMode, createMode, backup, chunks, killed, tmp0>>

Init == /\ origMode \in OrigModes
        /\ createMode \in CreateModes
        /\ backup \in BOOLEAN
        /\ \E stale \in StaleModes \cup {0} :
             /\ disk = [target |-> File("orig", origMode), tmp |-> IF stale = 0 THEN Absent ELSE File("other", stale), bak |-> Absent]
             /\ tmp0 = IF stale = 0 THEN Absent ELSE File("other", stale)
        /\ pc = "start" /\ chunks = 0 /\ killed = FALSE

Ev(c, obj, ok, full, mode) == [c |-> c, obj |-> obj, ok |-> ok, full |-> full, mode |-> mode]

\* the call the implementation issues in protocol state pc (outcome chosen by the environment)
Calls ==
  CASE pc = "start" /\ backup      -> {Ev("openw", "bak", ok, FALSE, 0) : ok \in BOOLEAN}
    [] pc = "bak_copy"             -> {Ev("copy", "bak", ok, full, 0) : ok \in BOOLEAN, full \in BOOLEAN}
    [] pc = "bak_utime"            -> {Ev("utime", "bak", ok, FALSE, 0) : ok \in BOOLEAN}
    [] pc = "bak_chmod"            -> {Ev("chmod", "bak", ok, FALSE, origMode) : ok \in BOOLEAN}
    [] pc = "fixing" \/ (pc = "start" /\ ~backup)
                                   -> IF ViaTemporary THEN {Ev("openw", "tmp", ok, FALSE, 0) : ok \in BOOLEAN}
                                      ELSE {Ev("openw", "target", ok, FALSE, 0) : ok \in BOOLEAN}
    [] pc = "tmp_write"            -> {Ev("write", IF ViaTemporary THEN "tmp" ELSE "target", ok, full, 0) : ok \in BOOLEAN, full \in {chunks + 1 >= MaxChunks}}
    [] pc = "flush"                -> {Ev("write", "tmp", ok, FALSE, 0) : ok \in BOOLEAN} \cup {Ev("unlink", "tmp", TRUE, FALSE, 0)}
    [] pc = "tmp_chmod"            -> IF ChmodBeforeReplace THEN {Ev("chmod", "tmp", ok, FALSE, origMode) : ok \in BOOLEAN}
                                      ELSE {Ev("rename", "tmp", ok, FALSE, 0) : ok \in BOOLEAN}
    [] pc = "rename"               -> {Ev("rename", "tmp", ok, FALSE, 0) : ok \in BOOLEAN}
    [] pc = "cleanup"              -> {Ev("unlink", "tmp", ok, FALSE, 0) : ok \in {disk["tmp"].content # "absent"}}
    [] OTHER                       -> {}

Issue == /\ ~killed
         /\ \E ev \in Calls :
              LET st == Step(pc, ev, backup, origMode) IN
              /\ disk' = Effect(disk, ev, createMode)
              /\ pc' = IF ~ViaTemporary /\ ev.obj = "target" THEN (IF ev.c = "openw" THEN (IF ev.ok THEN "tmp_write" ELSE "done") ELSE IF ev.ok /\ ev.full THEN "done" ELSE IF ev.ok THEN "tmp_write" ELSE "done")
                       ELSE IF ~ChmodBeforeReplace /\ pc = "tmp_chmod" THEN "cleanup"
                       ELSE st[2]
              /\ chunks' = IF ev.c = "write" /\ ev.ok THEN chunks + 1 ELSE chunks
         /\ UNCHANGED <<origMode, createMode, backup, killed, tmp0>>
\* nothing to write (no rule fixed anything), the file is rejected, or a rule raises while fixing: no further call
Stop == /\ ~killed /\ pc \in {"start", "fixing"}
        /\ pc' = "done"
        /\ UNCHANGED <<disk, origMode, createMode, backup, chunks, killed, tmp0>>
Kill == /\ ~killed /\ pc # "done"
        /\ killed' = TRUE
        /\ UNCHANGED <<disk, pc, origMode, createMode, backup, chunks, tmp0>>
Next == Issue \/ Stop \/ Kill
Spec == Init /\ [][Next]_vars

C16_Atomic         == Atomic(disk)
C16_ModeKept       == ModeKept(disk, origMode)
C16_BackupFaithful == backup => BackupFaithful(disk, origMode)
\* (a stale .tmp left by an earlier crash stays if this run never got to writing)
C16_TmpGone        == (pc = "done" /\ ~killed) => (TmpGone(disk) \/ disk["tmp"] = tmp0)
C16_ProtocolClosed == \A ev \in Calls : ViaTemporary /\ ChmodBeforeReplace => Step(pc, ev, backup, origMode)[1]
=============================================================================
