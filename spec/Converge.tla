------------------------------ MODULE Converge ------------------------------
(***************************************************************************)
(* Why one --fix is enough (property C09), as a design-level argument.     *)
(*                                                                         *)
(* Rules 1..NRules in the order rule_list.fix runs them (phase, sub-phase, *)
(* prerequisites last).  The file is abstracted to the set `viol` of rules *)
(* that have something to repair.  When rule r fixes, it repairs its own   *)
(* violations and may, as a side effect, create violations of the rules in *)
(* breaks[r].  The text is written, read back (second --fix) and the rules *)
(* run again.                                                              *)
(*                                                                         *)
(* Three mechanisms, each a switch:                                        *)
(*   Idempotent  a rule that has just fixed has nothing left to fix (C10)  *)
(*   Discipline  "each phase prepares the code for the next": a fix only   *)
(*               disturbs rules that run LATER in the same run             *)
(*   Canonical   what is written is what is read (C08): re-reading creates *)
(*               no violation                                              *)
(* TLC: for every relation `breaks`, every initial `viol`, every choice of *)
(* side effects: with all three, the second run changes nothing; without   *)
(* any one of them there is a counterexample (Mutant_Converge_*.cfg).      *)
(* The three are what the trace clauses C10_* (refix probe), C09_CleanUp / *)
(* C09_Indent / C13_PhaseOrder (schedule) and C08_* (re-read) observe on   *)
(* the real runs; C09_SecondFixChangesNothing observes the conclusion.     *)
(***************************************************************************)
EXTENDS Naturals, FiniteSets, TLC
CONSTANTS NRules, Idempotent, Discipline, Canonical
Rules == 1..NRules
VARIABLES breaks,   \* breaks[r]: rules whose cleanliness a fix by r may destroy
          reread,   \* violations that re-reading the written text creates
          viol,     \* rules that currently have something to repair
          k,        \* the next rule of the current run
          run,      \* 1, 2 (3 = finished)
          changed   \* changed[n]: run n modified the file
vars == <<breaks, reread, viol, k, run, changed>>

Init == /\ breaks \in [Rules -> SUBSET Rules]
        /\ \A r \in Rules : /\ (Discipline => \A q \in breaks[r] : q >= r)
                            /\ (Idempotent => r \notin breaks[r])
        /\ reread \in (IF Canonical THEN {{}} ELSE SUBSET Rules)
        /\ viol \in SUBSET Rules
        /\ k = 1 /\ run = 1 /\ changed = [n \in 1..2 |-> FALSE]

\* rule k has its turn
Turn == /\ run \in 1..2 /\ k <= NRules
        /\ IF k \in viol
           THEN /\ \E side \in SUBSET breaks[k] : viol' = (viol \ {k}) \cup side
                /\ changed' = [changed EXCEPT ![run] = TRUE]
           ELSE UNCHANGED <<viol, changed>>
        /\ k' = k + 1
        /\ UNCHANGED <<breaks, reread, run>>
\* end of a run: the text is written; the next run starts from what a fresh read of it gives
EndRun == /\ run \in 1..2 /\ k = NRules + 1
          /\ run' = run + 1 /\ k' = 1
          /\ viol' = IF run = 1 /\ changed[1] THEN viol \cup reread ELSE viol
          /\ UNCHANGED <<breaks, reread, changed>>
Next == Turn \/ EndRun
Spec == Init /\ [][Next]_vars

C09_SecondFixChangesNothing == ~changed[2]
C09_CleanAfterOneRun == (run >= 2 /\ k = 1 /\ Canonical) => viol = {}
=============================================================================
