------------------------------ MODULE Relayout ------------------------------
(***************************************************************************)
(* Meaning-preserving re-layouts (property C05).                           *)
(*                                                                         *)
(* A file is a sequence of code tokens; between two code tokens (and       *)
(* before the first / after the last) there is a GAP: blanks, line breaks, *)
(* comments.  Every code token has a spelling case.  The re-layout actions *)
(* change gaps and case only.  The classifier assigns a role to every code *)
(* token; the design intent named by the property is that the role is a    *)
(* function of the CODE (normalised spelling of the token and its code     *)
(* neighbours), never of the gaps or of the case.                          *)
(* LooksAtLayout = TRUE is the mutant: a classifier that treats a token    *)
(* at the start of a line differently.                                     *)
(***************************************************************************)
EXTENDS Naturals, Sequences, FiniteSets
CONSTANTS Words, MaxLen, LooksAtLayout
VARIABLES code,   \* sequence of words
          gap,    \* gap[i] precedes code[i]; gap[Len+1] follows the last token: [blanks, breaks, eol (comment ends a line in it), own (comment on its own line)]
          upper,  \* upper[i]: token i is written in upper case
          roles0  \* roles of the original layout
vars == <<code, gap, upper, roles0>>

Gap(bl, br, eol, own) == [blanks |-> bl, breaks |-> br, eol |-> eol, own |-> own]
Classify(c, g) ==
  [i \in 1..Len(c) |-> <<c[i], IF i > 1 THEN c[i-1] ELSE "", IF i < Len(c) THEN c[i+1] ELSE "",
                         IF LooksAtLayout THEN g[i].breaks > 0 ELSE FALSE>>]

Init == /\ \E n \in 1..MaxLen : code \in [1..n -> Words]
        /\ gap = [i \in 1..(Len(code) + 1) |-> Gap(1, 0, FALSE, FALSE)]
        /\ upper = [i \in 1..Len(code) |-> FALSE]
        /\ roles0 = Classify(code, gap)
Pos == 1..(Len(code) + 1)
Resize(i)  == gap[i].blanks < 3 /\ gap' = [gap EXCEPT ![i].blanks = @ + 1] /\ UNCHANGED <<code, upper, roles0>>
Narrow(i)  == gap[i].blanks > 1 /\ gap' = [gap EXCEPT ![i].blanks = 1] /\ UNCHANGED <<code, upper, roles0>>
Break(i)   == gap[i].breaks = 0 /\ gap[i].blanks > 0 /\ gap' = [gap EXCEPT ![i].breaks = 1] /\ UNCHANGED <<code, upper, roles0>>
Join(i)    == gap[i].breaks = 1 /\ ~gap[i].eol /\ ~gap[i].own /\ gap' = [gap EXCEPT ![i].breaks = 0, ![i].blanks = 1] /\ UNCHANGED <<code, upper, roles0>>
EolCmt(i)  == gap[i].breaks > 0 /\ ~gap[i].eol /\ gap' = [gap EXCEPT ![i].eol = TRUE] /\ UNCHANGED <<code, upper, roles0>>
OwnCmt(i)  == gap[i].breaks > 0 /\ ~gap[i].own /\ gap' = [gap EXCEPT ![i].own = TRUE, ![i].breaks = @ + 1] /\ UNCHANGED <<code, upper, roles0>>
Flip(i)    == i <= Len(code) /\ upper' = [upper EXCEPT ![i] = ~@] /\ UNCHANGED <<code, gap, roles0>>
Next == \E i \in Pos : Resize(i) \/ Narrow(i) \/ Break(i) \/ Join(i) \/ EolCmt(i) \/ OwnCmt(i) \/ Flip(i)
Spec == Init /\ [][Next]_vars

C05_RolesInvariant == Classify(code, gap) = roles0
=============================================================================
