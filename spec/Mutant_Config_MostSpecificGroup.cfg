SPECIFICATION Spec
CONSTANTS
  WholeEntry = TRUE
  ParentGroupApplies = FALSE
  OnlySingleMention = TRUE
INVARIANT C12_Precedence
CHECK_DEADLOCK FALSE
