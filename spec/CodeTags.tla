------------------------------ MODULE CodeTags ------------------------------
(***************************************************************************)
(* Reference (documentation) and implementation code-tag machines of       *)
(* CodeTagsOps.tla run in lock step over every sequence of line kinds      *)
(* (property C11).  See CodeTagsOps.tla for the two machines.              *)
(***************************************************************************)
EXTENDS CodeTagsOps
CONSTANTS MaxLines,
          HasCodeTagTestsMembership   \* TRUE: has_code_tag is  "all" in code_tags ; FALSE: code_tags == ["all"]
ImplSuppressed(st) == ImplSuppressedM(st, HasCodeTagTestsMembership)

(***************************************************************************)
(* Lock-step state machine                                                 *)
(***************************************************************************)
VARIABLES ref, impl, n, last     \* last: kind of the line just read ("" initially)
vars == <<ref, impl, n, last>>
Init == ref = RefInit /\ impl = ImplInit /\ n = 0 /\ last = "none"
Next == /\ n < MaxLines
        /\ \E ln \in LineKinds :
             /\ ref' = RefStep(ref, ln)
             /\ impl' = ImplStep(impl, ln)
             /\ last' = ln.k
        /\ n' = n + 1
Spec == Init /\ [][Next]_vars

\* C11: on every ordinary line (whatever comes next may be one) implementation and documentation agree
C11_SuppressedAgrees == ImplSuppressed(impl) = RefSuppressed(ref)
\* pieces of it, reported separately
C11_BareOffSuppressesAll == ref.allOff => ImplSuppressed(impl) = Rules
C11_UntaggedRuleUntouched == ~ref.allOff => "c" \notin ImplSuppressed(impl)
C11_NextLineOnlyNextLine == (last = "code" /\ ~ref.allOff) => ImplSuppressed(impl) = ref.off
=============================================================================
