SPECIFICATION Spec
CONSTANTS
  MaxLines = 8
  HasCodeTagTestsMembership = TRUE
INVARIANT C11_SuppressedAgrees
INVARIANT C11_BareOffSuppressesAll
INVARIANT C11_UntaggedRuleUntouched
INVARIANT C11_NextLineOnlyNextLine
CHECK_DEADLOCK FALSE
