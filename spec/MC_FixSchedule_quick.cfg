SPECIFICATION Spec
CONSTANTS
  NRules = 2
  PhaseSet = {1, 4}
  Lines = {1}
  LinesIgnored = FALSE
  OffByOne = FALSE
INVARIANT Inv_C13_FixPhase
INVARIANT Inv_C13_PhaseOrder
INVARIANT Inv_C03_NoneNeverFixes
INVARIANT Inv_C20_OnlyListed
INVARIANT Inv_C20_AllIsPlainFix
INVARIANT Inv_C20_NothingListed
INVARIANT Inv_C09_Mechanisms
CHECK_DEADLOCK FALSE
