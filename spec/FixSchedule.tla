---------------------------- MODULE FixSchedule ----------------------------
(***************************************************************************)
(* The schedule of rule_list.fix (fix side of C13, C20, the "never fixes"  *)
(* part of C03 and the mechanisms C09 rests on), as a pure operator over a *)
(* small rule table, checked for every table / --fix_phase / skip_phase /  *)
(* --fix_only selection.                                                   *)
(*                                                                         *)
(*   for phase in 1..N:                                                    *)
(*     if phase in skip: (phase = 1: set_token_indent); continue           *)
(*     if phase = 4: set_token_indent                                      *)
(*     for subphase in 0..5: enabled rules of (phase, subphase), rules     *)
(*        with prerequisites last:                                         *)
(*          error-type severity: rule.fix = analyse, filter by fix_only,   *)
(*                               repair what is left (if fixable)          *)
(*          otherwise          : analyse only                              *)
(*     if phase = 1: clean-up (blank lines, trailing whitespace, index)    *)
(*                                                                         *)
(* T rows: [id, phase, sub, err, dis, fixable, prereq, lines (set of lines *)
(* the rule reports)].  sel[id] = [m |-> "absent" | "all" | "lines", ls |-> listed lines].    *)
(* Switches (mutants): LinesIgnored - the filter keeps every violation of  *)
(* a listed rule; OffByOne - phases 1..N+1 are fixed.                      *)
(***************************************************************************)
EXTENDS Naturals, Sequences, FiniteSets, SequencesExt, FiniteSetsExt, TLC
CONSTANTS NRules, PhaseSet, Lines, LinesIgnored, OffByOne

Subphases == 0..5
RulesIn(T, p, s) == LET rs == SelectSeq(T, LAMBDA r : r.phase = p /\ r.sub = s /\ ~r.dis)
                    IN SelectSeq(rs, LAMBDA r : ~r.prereq) \o SelectSeq(rs, LAMBDA r : r.prereq)
Kept(r, fixOnly, sel) ==
  IF ~fixOnly THEN r.lines
  ELSE IF sel[r.id].m = "absent" THEN {}
  ELSE IF sel[r.id].m = "all" \/ LinesIgnored THEN r.lines
  ELSE r.lines \cap sel[r.id].ls

\* the events of one fix run, in order: <<"indent">>, <<"cleanup">>, <<"fix", rule id, phase, sub, lines repaired>>
Schedule(T, N, skip, fixOnly, sel) ==
  LET last == IF OffByOne THEN N + 1 ELSE N
      phase(p) ==
        IF p \in skip THEN (IF p = 1 THEN <<<<"indent">>>> ELSE <<>>)
        ELSE (IF p = 4 THEN <<<<"indent">>>> ELSE <<>>)
             \o FoldLeft(LAMBDA acc, s :
                   acc \o FoldLeft(LAMBDA a2, r :
                            IF r.err /\ r.fixable /\ Kept(r, fixOnly, sel) # {} THEN Append(a2, <<"fix", r.id, r.phase, r.sub, Kept(r, fixOnly, sel)>>) ELSE a2,
                          <<>>, RulesIn(T, p, s)),
                   <<>>, [i \in 1..6 |-> i - 1])
             \o (IF p = 1 THEN <<<<"cleanup">>>> ELSE <<>>)
  IN FoldLeft(LAMBDA acc, p : acc \o phase(p), <<>>, [p \in 1..(IF last > 7 THEN 7 ELSE last) |-> p])

Fixes(sched) == SelectSeq(sched, LAMBDA e : e[1] = "fix")
Row(T, id) == T[CHOOSE i \in 1..Len(T) : T[i].id = id]

\* ---- properties of a schedule
C13_FixPhase(T, N, skip, sched) == \A k \in 1..Len(sched) : sched[k][1] = "fix" => (sched[k][3] <= N /\ sched[k][3] \notin skip)
C13_PhaseOrder(sched) == LET f == Fixes(sched) IN \A k \in 1..(Len(f) - 1) : f[k][3] < f[k+1][3] \/ (f[k][3] = f[k+1][3] /\ f[k][4] <= f[k+1][4])
C03_NoneNeverFixes(T, sched) == \A k \in 1..Len(sched) : sched[k][1] = "fix" => LET r == Row(T, sched[k][2]) IN r.err /\ r.fixable /\ ~r.dis
C20_OnlyListed(T, fixOnly, sel, sched) ==
  \A k \in 1..Len(sched) : (sched[k][1] = "fix" /\ fixOnly) =>
       /\ sel[sched[k][2]].m # "absent"
       /\ (sel[sched[k][2]].m # "all" => sched[k][5] \subseteq sel[sched[k][2]].ls)
C20_AllIsPlainFix(T, N, skip) == Schedule(T, N, skip, TRUE, [i \in 1..NRules |-> [m |-> "all", ls |-> {}]]) = Schedule(T, N, skip, FALSE, [i \in 1..NRules |-> [m |-> "absent", ls |-> {}]])
C20_NothingListedNothingFixed(T, N, skip) == Fixes(Schedule(T, N, skip, TRUE, [i \in 1..NRules |-> [m |-> "absent", ls |-> {}]])) = <<>>
\* C09 mechanisms: clean-up before any phase >= 2 fix, indents recomputed after the last phase <= 3 fix and before a phase >= 4 fix
C09_Mechanisms(skip, sched) ==
  \A k \in 1..Len(sched) : sched[k][1] = "fix" =>
     /\ (sched[k][3] >= 2 /\ 1 \notin skip) => \E j \in 1..(k - 1) : sched[j][1] = "cleanup"
     /\ (sched[k][3] >= 4 /\ 4 \notin skip) => \E j \in 1..(k - 1) : sched[j][1] = "indent" /\ \A m \in (j + 1)..(k - 1) : ~(sched[m][1] = "fix" /\ sched[m][3] <= 3) /\ sched[m][1] # "cleanup"

VARIABLES T, N, skip, sel
vars == <<T, N, skip, sel>>
RuleRecs == [id : 1..NRules, phase : PhaseSet, sub : {1}, err : BOOLEAN, dis : BOOLEAN, fixable : BOOLEAN, prereq : {FALSE}, lines : {{}, Lines}]
Init == /\ T \in {t \in [1..NRules -> RuleRecs] : \A i \in 1..NRules : t[i].id = i}
        /\ N \in PhaseSet /\ skip \in SUBSET PhaseSet
        /\ sel \in [1..NRules -> {[m |-> "absent", ls |-> {}], [m |-> "all", ls |-> {}]} \cup {[m |-> "lines", ls |-> x] : x \in SUBSET Lines}]
Next == UNCHANGED vars
Spec == Init /\ [][Next]_vars
S1 == Schedule(T, N, skip, TRUE, sel)
S0 == Schedule(T, N, skip, FALSE, sel)
Inv_C13_FixPhase      == C13_FixPhase(T, N, skip, S1) /\ C13_FixPhase(T, N, skip, S0)
Inv_C13_PhaseOrder    == C13_PhaseOrder(S1) /\ C13_PhaseOrder(S0)
Inv_C03_NoneNeverFixes == C03_NoneNeverFixes(T, S1) /\ C03_NoneNeverFixes(T, S0)
Inv_C20_OnlyListed    == C20_OnlyListed(T, TRUE, sel, S1)
Inv_C20_AllIsPlainFix == C20_AllIsPlainFix(T, N, skip)
Inv_C20_NothingListed == C20_NothingListedNothingFixed(T, N, skip)
Inv_C09_Mechanisms    == C09_Mechanisms(skip, S0)
=============================================================================
