--------------------------- MODULE WriteBackTrace ---------------------------
(***************************************************************************)
(* Recorded runs of the unmodified VSG command line under strace (with     *)
(* injected system-call failures and kills) validated against the          *)
(* write-back protocol (C16) and the clean-file clause of C04.             *)
(* One record per run:                                                     *)
(*   ev        the mutating system calls on target / tmp / bak, in order   *)
(*   origMode, createMode, backup, stale (mode of a pre-existing .tmp or 0)*)
(*   final     what the harness found on disk afterwards: content class    *)
(*             and mode of the three files                                 *)
(*   killed, rc, expectWrite (a fault-free run of the same scenario        *)
(*             rewrites the file), clean (the scenario has nothing to fix) *)
(***************************************************************************)
EXTENDS WriteBackOps, TLC, Json, IOUtils, Integers

Data == JsonDeserialize(IOEnv.TRACE_FILE)
Recs == Data.recs
VARIABLES n, i, disk, pc
vars == <<n, i, disk, pc>>
R == Recs[n]
Chk(name, ok) == IF ok THEN TRUE ELSE PrintT(<<"V", R.id, i, name>>)

Init == /\ n \in 1..Len(Recs)
        /\ i = 1
        /\ pc = "start"
        /\ disk = [target |-> File("orig", Recs[n].origMode),
                   tmp |-> IF Recs[n].stale = 0 THEN Absent ELSE File("other", Recs[n].stale),
                   bak |-> Absent]

Invariants(d) ==
  /\ Chk("C16_Atomic", Atomic(d))
  /\ Chk("C16_ModeKept", ModeKept(d, R.origMode))
  /\ Chk("C16_BackupFaithful", ~R.backup \/ BackupFaithful(d, R.origMode))

Call ==
  /\ i <= Len(R.ev)
  /\ LET ev == R.ev[i]
         st == Step(pc, ev, R.backup, R.origMode)
         d2 == Effect(disk, ev, R.createMode)
     IN /\ Chk("C16_SyscallOrder", st[1])
        /\ Chk("C04_CleanUntouched", ~R.clean)                 \* a file with nothing to fix sees no mutating call at all
        /\ Invariants(d2)
        /\ disk' = d2
        /\ pc' = st[2]
  /\ i' = i + 1 /\ n' = n

\* after the last call: the model's disk must be what the harness found, and the end state must be acceptable
Finish ==
  /\ i = Len(R.ev) + 1
  /\ Chk("B_FinalDiskMatchesModel", /\ disk["target"].content = R.final.target.content /\ disk["target"].mode = R.final.target.mode
                                    /\ disk["tmp"].content = R.final.tmp.content
                                    /\ disk["bak"].content = R.final.bak.content)
  /\ Chk("C16_Atomic", R.final.target.content \in {"orig", "fixed"})
  /\ Chk("C16_ModeKept", R.final.target.mode = R.origMode)
  /\ Chk("C16_TmpGone", R.killed \/ R.final.tmp.content = "absent" \/ (R.stale # 0 /\ ~\E k \in 1..Len(R.ev) : R.ev[k].obj = "tmp"))       \* a stale .tmp of an earlier crash, never touched
  /\ Chk("C16_BackupFaithful", ~R.backup \/ R.final.target.content # "fixed" \/ (R.final.bak.content = "orig" /\ R.final.bak.mode = R.origMode))
  /\ Chk("C16_OtherNameWhole", R.otherName \in {"none", "orig", "fixed"})       \* a second hard link never holds a truncated / mixed text either
  /\ Chk("C16_FixedWhenNoFault", ~(R.expectWrite /\ ~R.faulted /\ ~R.killed) \/ R.final.target.content = "fixed")
  /\ Chk("C04_CleanUntouched", ~R.clean \/ (R.final.target.content = "orig" /\ R.sameInode /\ R.sameMtime))
  /\ PrintT(<<"DONE", R.id, i>>)
  /\ i' = i + 1 /\ UNCHANGED <<n, disk, pc>>

Next == Call \/ Finish
Spec == Init /\ [][Next]_vars
=============================================================================
