SPECIFICATION TSpec
POSTCONDITION Accepted
CHECK_DEADLOCK FALSE
