SPECIFICATION Spec
CONSTANTS
  WholeEntry = FALSE
  ParentGroupApplies = TRUE
  OnlySingleMention = FALSE
INVARIANT C12_Precedence
CHECK_DEADLOCK FALSE
