------------------------------ MODULE LexerOps ------------------------------
(***************************************************************************)
(* Statement-for-statement transcription of vsg/tokens.py (tokens.create): *)
(* a line of text is turned into lexical chunks by nine regrouping passes. *)
(* Characters are small integers (see Chars below), a chunk is a sequence  *)
(* of characters, the state of the lexer is the list of chunks.            *)
(*                                                                         *)
(* TLC enumerates every string up to MaxLen over the alphabet and checks   *)
(* that every pass is a regrouping (the contract Lexer.tla, property C04:  *)
(* join(tokenize(s)) = s).  The same operators predict, pass by pass, what *)
(* the real tokens.create produces (LexerTrace.tla).                       *)
(***************************************************************************)
EXTENDS Naturals, Integers, Sequences, FiniteSets, SequencesExt, FiniteSetsExt
CONSTANT PipeIsDelimiter     \* TRUE: the code; FALSE (mutant): '|' missing from lSingleCharacterSymbols, as before the repair

\* ---- the alphabet: one representative per class of character the passes distinguish
SP == 1  TAB == 2  LA == 3  LE == 4  LX == 5  D1 == 6  DOT == 7  DQ == 8  SQ == 9  BSL == 10
MINUS == 11  STAR == 12  SLASH == 13  EQ == 14  LT == 15  GT == 16  QM == 17  LP == 18  SEMI == 19  COLON == 20
UE == 21      \* "E"  (upper case exponent)
PIPE == 22  COMMA == 23
Chars == 1..23

IsSpaceChar(c) == c \in {SP, TAB}
IsDigitChar(c) == c = D1
Lower(c) == IF c = UE THEN LE ELSE c
\* lSingleCharacterSymbols restricted to the alphabet:  : ( ' " - * / < > ; = ? | ,
Singles == {COLON, LP, SQ, DQ, MINUS, STAR, SLASH, LT, GT, SEMI, EQ, QM, COMMA} \cup (IF PipeIsDelimiter THEN {PIPE} ELSE {})
Three == {<<QM, SLASH, EQ>>, <<QM, LT, EQ>>, <<QM, GT, EQ>>}
Two == {<<EQ, GT>>, <<STAR, STAR>>, <<COLON, EQ>>, <<SLASH, EQ>>, <<GT, EQ>>, <<LT, EQ>>, <<LT, GT>>, <<QM, QM>>, <<QM, EQ>>, <<QM, LT>>,
        <<QM, GT>>, <<LT, LT>>, <<GT, GT>>, <<MINUS, MINUS>>, <<SLASH, STAR>>, <<STAR, SLASH>>}

\* ---- C05 at the lexical level: a VHDL delimiter always separates.  In a line without quotes and backslashes (where no
\* literal or extended identifier can hide a delimiter) every final chunk of two or more characters is a blank run, a
\* compound delimiter, or consists of word characters only - whether or not blanks surround the delimiter.
WordChars == {LA, LE, LX, D1, DOT, UE}
QuoteFree(s) == \A i \in 1..Len(s) : s[i] \notin {DQ, SQ, BSL}

Flatten(cs) == FoldLeft(LAMBDA acc, c : acc \o c, <<>>, cs)
IsSpaceStr(s) == s # <<>> /\ \A i \in 1..Len(s) : IsSpaceChar(s[i])          \* str.isspace()
IsDigitStr(s) == s # <<>> /\ \A i \in 1..Len(s) : IsDigitChar(s[i])          \* str.isdigit()
Slice(cs, a, b) == SubSeq(cs, a, IF b > Len(cs) THEN Len(cs) ELSE b)         \* 1-based inclusive, clamped like Python

\* ---- pass 1: combine_whitespace
P1(cs) ==
  LET step(acc, c) ==
        IF IsSpaceStr(c) THEN [out |-> acc.out, sp |-> acc.sp \o c]
        ELSE [out |-> (IF IsSpaceStr(acc.sp) THEN Append(acc.out, acc.sp) ELSE acc.out) \o <<c>>,
              sp  |-> IF IsSpaceStr(acc.sp) THEN <<>> ELSE acc.sp]
      r == FoldLeft(step, [out |-> <<>>, sp |-> <<>>], cs)
  IN Append(r.out, r.sp)                              \* the (possibly empty) trailing run is always appended

\* ---- helper of passes 2 and 7: merge chunks l..r (0-based inclusive) into one, for every pair, last pair first
CombinePairs(cs, pairs) ==      \* pairs: sequence of <<l, r>> in the order they are applied
  FoldLeft(LAMBDA acc, p : SubSeq(acc, 1, p[1]) \o <<Flatten(Slice(acc, p[1] + 1, p[2] + 1))>> \o SubSeq(acc, p[2] + 2, Len(acc)), cs, pairs)
IndexesOf(cs, v) == SetToSortSeq({i \in 0..(Len(cs) - 1) : cs[i + 1] = v}, <)       \* 0-based like Python

\* ---- pass 2: combine_string_literals
P2(cs) ==
  LET q == IndexesOf(cs, <<DQ>>)
      np == Len(q) \div 2
      pairs == [k \in 1..np |-> <<q[2 * (np - k) + 1], q[2 * (np - k) + 2]>>]       \* reversed
  IN CombinePairs(cs, pairs)

\* ---- pass 3: combine_backslash_characters_into_symbols
StopChunk(c) == c \in {<<SP>>, <<LP>>, <<SEMI>>} \/ SP \in Range(c)
P3(cs) ==
  LET step(acc, c) ==
        LET stop == StopChunk(c) /\ acc.b
            out1 == IF stop THEN Append(acc.out, acc.sym) ELSE acc.out
            sym1 == IF stop THEN <<>> ELSE acc.sym
            b1   == IF stop THEN FALSE ELSE acc.b
            b2   == IF c = <<BSL>> THEN TRUE ELSE b1
        IN [out |-> IF b2 THEN out1 ELSE Append(out1, c), sym |-> IF b2 THEN sym1 \o c ELSE sym1, b |-> b2]
      r == FoldLeft(step, [out |-> <<>>, sym |-> <<>>, b |-> FALSE], cs)
  IN IF r.sym # <<>> THEN Append(r.out, r.sym) ELSE r.out

\* ---- passes 4 and 5: combine k-character symbols (the JOIN of k chunks is compared)
RECURSIVE CombineSyms(_, _, _, _)
CombineSyms(cs, i, k, syms) ==        \* i: 1-based position
  IF i > Len(cs) THEN <<>>
  ELSE LET j == Flatten(Slice(cs, i, i + k - 1))
       IN IF j \in syms THEN <<j>> \o CombineSyms(cs, i + k, k, syms)
          ELSE <<cs[i]>> \o CombineSyms(cs, i + 1, k, syms)
P4(cs) == CombineSyms(cs, 1, 3, Three)
P5(cs) == CombineSyms(cs, 1, 2, Two)

\* ---- pass 6: combine_characters_into_words
PartOfWord(c) == ~(Len(c) > 1) /\ ~IsSpaceStr(c) /\ ~(Len(c) = 1 /\ c[1] \in Singles)
P6(cs) ==
  LET step(acc, c) ==
        IF PartOfWord(c) THEN [out |-> acc.out, t |-> acc.t \o c]
        ELSE [out |-> (IF acc.t # <<>> THEN Append(acc.out, acc.t) ELSE acc.out) \o <<c>>, t |-> <<>>]
      r == FoldLeft(step, [out |-> <<>>, t |-> <<>>], cs)
  IN IF r.t # <<>> THEN Append(r.out, r.t) ELSE r.out

\* ---- pass 7: combine_character_literals
P7(cs) ==
  LET q  == IndexesOf(cs, <<SQ>>)
      cand == SelectSeq([k \in 1..(Len(q) - 1) |->
                           IF q[k] + 2 = q[k + 1] /\ Len(cs[q[k] + 2]) = 1 /\ cs[q[k] + 2] # <<LP>> THEN <<q[k], q[k] + 2>> ELSE <<>>],
                        LAMBDA p : p # <<>>)
      n  == Len(cand)
      \* filter_character_literal_candidates: left to right, a candidate that starts at the closing quote of the last
      \* candidate taken is skipped (the comma in 'a','b' is not a literal)
      kept == FoldLeft(LAMBDA acc, p : IF acc # <<>> /\ p[1] = acc[Len(acc)][2] THEN acc ELSE Append(acc, p), <<>>, cand)
  IN IF n = 0 THEN cs ELSE CombinePairs(cs, Reverse(kept))

\* ---- pass 8: split_natural_numbers
SplitAt(s, seps) ==          \* str.split(sep) for a one-character separator set: sequence of pieces (possibly empty)
  LET step(acc, c) == IF c \in seps THEN Append(acc, <<>>) ELSE [acc EXCEPT ![Len(acc)] = acc[Len(acc)] \o <<c>>]
  IN FoldLeft(step, <<<<>>>>, s)
IsNatural(s) ==
  LET ls   == SplitAt([i \in 1..Len(s) |-> Lower(s[i])], {LE})
      base == SplitAt(ls[1], {DOT}) \o Tail(ls)
  IN \A k \in 1..(Len(base) - 1) : IsDigitStr(base[k])
ParseNatural(s) ==
  LET step(acc, c) == IF Lower(c) = LE THEN [out |-> acc.out \o <<acc.t, <<c>>>>, t |-> <<>>] ELSE [out |-> acc.out, t |-> Append(acc.t, c)]
      r == FoldLeft(step, [out |-> <<>>, t |-> <<>>], s)
  IN IF r.t # <<>> THEN Append(r.out, r.t) ELSE r.out
P8(cs) == FoldLeft(LAMBDA acc, c : acc \o (IF IsNatural(c) THEN ParseNatural(c) ELSE <<c>>), <<>>, cs)

\* ---- pass 9: split_bit_string_literal_integer_and_base_specifier
IsBaseSpec(cs, i) ==         \* i 1-based
  /\ i < Len(cs)
  /\ cs[i] # <<>> /\ Lower(cs[i][Len(cs[i])]) = LX          \* ends with b / o / x / d (class representative: x)
  /\ cs[i + 1] # <<>> /\ cs[i + 1][1] = DQ
SplitBase(c) ==
  LET nd == {k \in 1..Len(c) : ~IsDigitChar(c[k])}
      k  == Min(nd) - 1          \* nd is never empty here: the chunk ends with a letter
  IN SelectSeq(<<SubSeq(c, 1, k), SubSeq(c, k + 1, Len(c))>>, LAMBDA x : x # <<>>)
P9(cs) == FoldLeft(LAMBDA acc, i : acc \o (IF IsBaseSpec(cs, i) THEN SplitBase(cs[i]) ELSE <<cs[i]>>), <<>>, [i \in 1..Len(cs) |-> i])

Pass(k, cs) == CASE k = 1 -> P1(cs) [] k = 2 -> P2(cs) [] k = 3 -> P3(cs) [] k = 4 -> P4(cs) [] k = 5 -> P5(cs)
                 [] k = 6 -> P6(cs) [] k = 7 -> P7(cs) [] k = 8 -> P8(cs) [] k = 9 -> P9(cs)
DelimsSeparate(cs) == \A i \in 1..Len(cs) : Len(cs[i]) >= 2 =>
                          (IsSpaceStr(cs[i]) \/ cs[i] \in Two \cup Three \/ \A k \in 1..Len(cs[i]) : cs[i][k] \in WordChars)
Chars0(s) == [i \in 1..Len(s) |-> <<s[i]>>]                                 \* convert_string_to_chars
Create(s) == P9(P8(P7(P6(P5(P4(P3(P2(P1(Chars0(s))))))))))
=============================================================================
