------------------------------- MODULE Edits -------------------------------
(***************************************************************************)
(* What a fix is allowed to do to the token list, by documented class of   *)
(* the rule (properties C01 C02 C03 C07), and the splice mechanics of      *)
(* vhdlFile.update() (C18).  Pure operators: used both by the design-level *)
(* model (FixPipeline.tla, small token lists, TLC enumerates every edit)   *)
(* and by the trace specification (FixTrace.tla, recorded executions).     *)
(***************************************************************************)
EXTENDS Tokens

\* A window = one violation of one rule application:
\*   [s |-> 0-based start in the list, n |-> number of tokens replaced, pre, post |-> token tuples]

(***************************************************************************)
(* Splice mechanics: update() assigns list[s : s+n] = post for every       *)
(* violation, LAST FIRST.                                                  *)
(***************************************************************************)
\* Python slice assignment clamps out-of-range bounds:  l[a : a+n] = ins
PySplice(s, a, n, ins) ==
  LET a1 == IF a > Len(s) THEN Len(s) ELSE IF a < 0 THEN 0 ELSE a
      e0 == IF a + n > Len(s) THEN Len(s) ELSE a + n
      e1 == IF e0 < a1 THEN a1 ELSE e0
  IN SubSeq(s, 1, a1) \o ins \o SubSeq(s, e1 + 1, Len(s))
ApplyWindows(s, ws) == FoldRight(LAMBDA w, acc : PySplice(acc, w.s, w.n, w.post), ws, s)
ApplyWindowsForward(s, ws) == FoldLeft(LAMBDA acc, w : PySplice(acc, w.s, w.n, w.post), s, ws)   \* the mutant

WindowInRange(s, w) == w.s >= 0 /\ w.n >= 0 /\ w.s + w.n <= Len(s)
WindowExact(s, w)   == WindowInRange(s, w) /\ SubSeq(s, w.s + 1, w.s + w.n) = w.pre

(***************************************************************************)
(* Hunks: the part of a window that really changes, for a projection.      *)
(* proj(seq) selects the tokens of interest (code, or comments); a hunk is *)
(* given in coordinates of proj(whole list):                               *)
(*   [a |-> number of projected tokens before the hunk, n |-> how many are *)
(*    replaced, ins |-> replacing <<u, nv>> pairs]                         *)
(* Tokens are compared by identity and normalised value <<u, nv>>, so      *)
(* re-casing a token in place is not a hunk and a token that is removed    *)
(* and re-created is.                                                      *)
(***************************************************************************)
UN(s) == [i \in 1..Len(s) |-> <<s[i][F_U], s[i][F_NV]>>]

ProjBefore(s, pos, K) == Cardinality({i \in 1..pos : s[i][F_K] \in K})

Hunk(s, ws, k, K) ==
  LET w == ws[k]
      a == UN(SelectSeq(w.pre,  LAMBDA t : t[F_K] \in K))
      b == UN(SelectSeq(w.post, LAMBDA t : t[F_K] \in K))
      p == CommonPrefixLen(a, b)
      q == CommonSuffixLen(a, b, p)
  IN [a   |-> ProjBefore(s, w.s, K) + p,
      n   |-> Len(a) - p - q,
      del |-> SubSeq(a, p + 1, Len(a) - q),
      ins |-> SubSeq(b, p + 1, Len(b) - q),
      k   |-> k]
EmptyHunk(h) == h.n = 0 /\ h.ins = <<>>
SameHunk(g, h) == g.a = h.a /\ g.n = h.n /\ g.del = h.del /\ g.ins = h.ins
\* one representative (the last window) of every distinct non-empty hunk: a violation reported twice is one change
Hunks(s, ws, K) ==
  LET all == {Hunk(s, ws, k, K) : k \in 1..Len(ws)}
  IN {h \in all : ~EmptyHunk(h) /\ ~\E g \in all : SameHunk(g, h) /\ g.k > h.k}

\* replaced ranges of different hunks must not overlap (insertions at one place keep the order of their windows)
HunksDisjoint(H) ==
  \A g, h \in H : g.k # h.k => (g.a + g.n <= h.a \/ h.a + h.n <= g.a)
\* the intended result on the projection: every distinct hunk applied exactly once (right to left)
ApplyHunks(p, H) ==
  LET hs == SetToSortSeq(H, LAMBDA x, y : x.a > y.a \/ (x.a = y.a /\ x.n > y.n) \/ (x.a = y.a /\ x.n = y.n /\ x.k > y.k))
  IN FoldLeft(LAMBDA acc, h : Splice(acc, h.a, h.n, h.ins), p, hs)

\* C01 / C02 at the level of one whole rule application (duplicate or overlapping windows may each look
\* innocent while their combination duplicates or loses tokens)
StepIsSumOfHunks(s, s2, ws, K) ==
  LET H == Hunks(s, ws, K)
      P(x) == UN(SelectSeq(x, LAMBDA t : t[F_K] \in K))
  IN /\ HunksDisjoint(H)
     /\ P(s2) = ApplyHunks(P(s), H)

(***************************************************************************)
(* The documented structural vocabulary (property C01), on sequences of    *)
(* normalised values of CODE tokens.                                       *)
(*   L, R : code context left / right of the hunk (a few tokens)           *)
(*   del, ins : the hunk;  earlier : names that occur before the hunk      *)
(***************************************************************************)
CondOpeners == {W_IF, W_ELSIF, W_WHILE, W_WHEN, W_UNTIL, W_ASSERT}
CondClosers == {W_THEN, W_LOOP, W_GENERATE, W_SEMI, W_REPORT, W_SEVERITY, W_ELSE, W_FOR}
DeclKeywords == {W_SIGNAL, W_CONSTANT, W_VARIABLE, W_FILE}

Balanced(x) ==
  LET depth == FoldLeft(LAMBDA acc, t : IF acc < 0 THEN acc
                                        ELSE IF t = W_LPAR THEN acc + 1
                                        ELSE IF t = W_RPAR THEN acc - 1 ELSE acc, 0, x)
  IN depth = 0
LastOf(L)  == IF L = <<>> THEN 0 ELSE L[Len(L)]
FirstOf(R) == IF R = <<>> THEN 0 ELSE R[1]

\* L ends with  end [keyword-run]
AfterEnd(L) ==
  \E k \in 0..2 : /\ Len(L) > k
                  /\ L[Len(L) - k] = W_END
                  /\ (k = 0 \/ SubSeq(L, Len(L) - k + 1, Len(L)) \in EndKeywordSeqs)
\* L ends with "end" followed by a proper prefix of a keyword run that ins completes (e.g. end package . body)
EndKeywordInsert(L, ins) ==
  \E k \in 0..1 : /\ Len(L) > k
                  /\ L[Len(L) - k] = W_END
                  /\ (SubSeq(L, Len(L) - k + 1, Len(L)) \o ins) \in EndKeywordSeqs

OptionalIs(del, ins)        == (del = <<>> /\ ins = <<W_IS>>) \/ (del = <<W_IS>> /\ ins = <<>>)
EndKeyword(L, del, ins)     == (del = <<>> /\ ins # <<>> /\ EndKeywordInsert(L, ins))
                               \/ (ins = <<>> /\ del # <<>> /\ EndKeywordInsert(L, del))
EndName(L, R, del, ins, earlier) ==
  /\ AfterEnd(L)
  /\ \/ del = <<>> /\ Len(ins) = 1 /\ ins[1] \in earlier            \* the name must already exist: nothing is invented
     \/ ins = <<>> /\ Len(del) = 1 /\ FirstOf(R) = W_SEMI /\ del[1] \notin EndKeywords
ComponentKw(L, del, ins)    == /\ LastOf(L) = W_COLON
                               /\ (del = <<>> /\ ins = <<W_COMPONENT>>) \/ (ins = <<>> /\ del = <<W_COMPONENT>>)
Label(del, ins, earlier)    == \/ ins = <<>> /\ Len(del) = 2 /\ del[2] = W_COLON
                               \/ del = <<>> /\ Len(ins) = 2 /\ ins[2] = W_COLON /\ ins[1] \in earlier

\* one balanced pair of parentheses round a whole condition: a = A X B, b = A ( X ) B.
\* Greedy prefix trimming would steal a "(" from X ("if (a) and (b) then"), hence the existential split near p, q.
CondParens(a, b) ==
  LET Try(x, y) ==      \* y = x with a pair added
        /\ Len(y) = Len(x) + 2
        /\ LET p == CommonPrefixLen(x, y)
               q == CommonSuffixLen(x, y, p)
           IN \E i \in (IF p > 4 THEN p - 4 ELSE 0)..p :
              \E j \in (IF q > 4 THEN q - 4 ELSE 0)..q :
                 /\ i + j <= Len(x)
                 /\ LET A == SubSeq(x, 1, i)
                        X == SubSeq(x, i + 1, Len(x) - j)
                        B == SubSeq(x, Len(x) - j + 1, Len(x))
                    IN /\ X # <<>> /\ Balanced(X)
                       /\ y = A \o <<W_LPAR>> \o X \o <<W_RPAR>> \o B
                       /\ LastOf(A) \in CondOpeners
                       /\ FirstOf(B) \in CondClosers
  IN Try(a, b) \/ Try(b, a)

\* kw a , b : T   ->   kw a : T ; kw b : T      (X excludes the terminating ";" or ")")
SplitOf(X) ==
  LET k0   == IF X # <<>> /\ X[1] = W_SHARED THEN 2 ELSE IF X # <<>> /\ X[1] \in DeclKeywords THEN 1 ELSE 0
      KW   == SubSeq(X, 1, k0)
      cols == {i \in 1..Len(X) : X[i] = W_COLON}
      c    == IF cols = {} THEN 0 ELSE Min(cols)
      REST == SubSeq(X, c, Len(X))
      nid  == (c - k0) \div 2              \* ids at k0+1, k0+3, ... , commas between
      wellformed == /\ c > k0 + 2 /\ (c - k0) % 2 = 0
                    /\ \A m \in 1..(nid - 1) : X[k0 + 2 * m] = W_COMMA
                    /\ \A m \in 1..nid : X[k0 + 2 * m - 1] \notin {W_COMMA, W_COLON, W_SEMI}
                    /\ W_SEMI \notin Range(REST)
  IN IF ~wellformed THEN <<>>
     ELSE FoldLeft(LAMBDA acc, m : acc \o (IF m = 1 THEN <<>> ELSE <<W_SEMI>>) \o KW \o <<X[k0 + 2 * m - 1]>> \o REST,
                   <<>>, [m \in 1..nid |-> m])
SplitDecl(a, b) ==
  LET p == CommonPrefixLen(a, b)
  IN \E i \in (IF p > 3 THEN p - 3 ELSE 0)..p :
     \E j \in {jj \in (i + 4)..Len(a) : jj = Len(a) \/ a[jj + 1] \in {W_SEMI, W_RPAR}} :
        LET X == SubSeq(a, i + 1, j)
            E == SplitOf(X)
        IN E # <<>> /\ b = SubSeq(a, 1, i) \o E \o SubSeq(a, j + 1, Len(a))

\* One window's code change is explained by ONE documented structural edit.
\*   a, b     normalised values of the window's code tokens before / after
\*   cl, cr   code context outside the window;  earlier: names occurring before the window
ExplainsCode(a, b, cl, cr, earlier) ==
  LET p   == CommonPrefixLen(a, b)
      q   == CommonSuffixLen(a, b, p)
      L   == cl \o SubSeq(a, 1, p)
      R   == SubSeq(a, Len(a) - q + 1, Len(a)) \o cr
      del == SubSeq(a, p + 1, Len(a) - q)
      ins == SubSeq(b, p + 1, Len(b) - q)
      names == earlier \cup Range(SubSeq(a, 1, p))
  IN \/ a = b
     \/ OptionalIs(del, ins)
     \/ EndKeyword(L, del, ins)
     \/ EndName(L, R, del, ins, names)
     \/ ComponentKw(L, del, ins)
     \/ Label(del, ins, names)
     \/ CondParens(cl \o a \o cr, cl \o b \o cr)
     \/ SplitDecl(a, b)

(***************************************************************************)
(* Comment changes (C02): order and normalised text kept; a comment may    *)
(* only disappear when the rule is documented to remove comments.          *)
(***************************************************************************)
CommentsSame(pre, post)    == KN(Comments(pre)) = KN(Comments(post))        \* modulo blanks inside the comment
\* post is pre with one contiguous run of comments left out
CommentsOnlyDropped(pre, post) ==
  LET a == KN(Comments(pre))  b == KN(Comments(post))
      p == CommonPrefixLen(a, b)   q == CommonSuffixLen(a, b, p)
  IN Len(b) - p - q = 0 /\ Len(a) - p - q > 0

\* a "--" comment is always the last thing on its line (it would swallow what follows when written out)
\* (VSG keeps blanks that trail a comment as a separate whitespace token; zero-width BLANK markers are invisible)
CommentEndsLine(s0) ==
  LET s == SelectSeq(s0, LAMBDA t : t[F_K] # BLANK) IN
  \A i \in 1..Len(s) : s[i][F_K] \in {CMT, PRAGMA} =>
      \/ (i < Len(s) /\ s[i+1][F_K] = CR)
      \/ (i + 1 < Len(s) /\ s[i+1][F_K] = WS /\ s[i+2][F_K] = CR)

\* Lexically canonical (C08): what is written out is read back as the same tokens only if the zero-width blank-line
\* marker stands alone on its line and no two whitespace tokens are adjacent (they would be read as one)
Canonical(s) ==
  /\ \A i \in 1..Len(s) : s[i][F_K] = BLANK => /\ (i = 1 \/ s[i-1][F_K] = CR)
                                              /\ (i < Len(s) /\ s[i+1][F_K] = CR)
  /\ \A i \in 1..(Len(s) - 1) : ~(s[i][F_K] = WS /\ s[i+1][F_K] = WS)

(***************************************************************************)
(* Effect classes (C03)                                                    *)
(***************************************************************************)
WsOnly(pre, post)   == KNR(NoWs(pre)) = KNR(NoWs(post))       \* CR kept, comments equal modulo inner blanks
VertOnly(pre, post) == KNR(NoVert(pre)) = KNR(NoVert(post))
\* named: roles the rule is entitled to re-case;  namedNV: spellings of the tokens of those roles in the whole file
\* (a "consistent case" rule re-cases every use of a name it names); named = {} : no restriction known
CaseOnly(pre, post, named, namedNV) ==
  /\ Len(pre) = Len(post)
  /\ \A i \in 1..Len(pre) :
       /\ post[i][F_K] = pre[i][F_K] /\ post[i][F_R] = pre[i][F_R] /\ post[i][F_W] = pre[i][F_W]
       /\ post[i][F_NV] = pre[i][F_NV]
       /\ (pre[i][F_LIT] \in ExactLits => post[i][F_XV] = pre[i][F_XV])
       /\ (post[i][F_XV] # pre[i][F_XV] => (pre[i][F_K] = CODE /\ (named = {} \/ pre[i][F_R] \in named \/ pre[i][F_NV] \in namedNV)))
\* a structural rule may do anything to layout; code only through the vocabulary; comments kept (or dropped when documented)
StructOnly(pre, post, cl, cr, earlier, mayDrop) ==
  /\ ExplainsCode(NV(Code(pre)), NV(Code(post)), cl, cr, earlier)
  /\ CommentsSame(pre, post) \/ (mayDrop /\ CommentsOnlyDropped(pre, post))

(***************************************************************************)
(* Lines (C07)                                                             *)
(***************************************************************************)
ChangedLines(s, s2) ==
  LET a == LineSeq(s)  b == LineSeq(s2)
      m == IF Len(a) < Len(b) THEN Len(a) ELSE Len(b)
  IN {i \in 1..m : a[i] # b[i]}

(***************************************************************************)
(* Identity accounting of one fix (C18): nothing outside the windows moves *)
(***************************************************************************)
NoCollateral(B, A, ws) ==          \* B, A : sequences of token uids before / after
  LET U   == UNION {Range(Us(ws[k].pre)) : k \in 1..Len(ws)}
      Ins == UNION {Range(Us(ws[k].post)) : k \in 1..Len(ws)}
      Out == Range(B) \ U
  IN /\ SelectSeq(A, LAMBDA x : x \in Out) = SelectSeq(B, LAMBDA x : x \in Out)
     /\ Range(B) \ Range(A) \subseteq U
     /\ Range(A) \ Range(B) \subseteq Ins

(***************************************************************************)
(* The name written after 'end block' / 'end process' is the label of the  *)
(* statement it closes (C01: "the optional keyword and MATCHING name after *)
(* 'end'"; a name that merely occurs earlier in the file is not enough).   *)
(* c: normalised values of the code tokens of the whole list.  A forward   *)
(* scan keeps the stack of labels of the open statements of keyword kw     *)
(* (0 = no label); at every 'end kw n ;' the name n must be the top.       *)
(***************************************************************************)
EndNamesMatch(c, kw) ==
  LET step(acc, i) ==
        IF c[i] # kw THEN acc
        ELSE IF (i > 1 /\ c[i - 1] = W_END) \/ (i > 2 /\ c[i - 1] = W_POSTPONED /\ c[i - 2] = W_END)
             THEN LET top == IF acc.st = <<>> THEN 0 ELSE acc.st[Len(acc.st)]
                      named == i + 2 <= Len(c) /\ c[i + 2] = W_SEMI          \* end kw NAME ;
                  IN [st |-> IF acc.st = <<>> THEN acc.st ELSE SubSeq(acc.st, 1, Len(acc.st) - 1),
                      ok |-> acc.ok /\ (~named \/ acc.st = <<>> \/ top = 0 \/ c[i + 1] = top)]
             ELSE LET j == IF i > 1 /\ c[i - 1] = W_POSTPONED THEN i - 1 ELSE i
                  IN [st |-> Append(acc.st, IF j > 2 /\ c[j - 1] = W_COLON THEN c[j - 2] ELSE 0), ok |-> acc.ok]
      r == FoldLeft(step, [st |-> <<>>, ok |-> TRUE], [i \in 1..Len(c) |-> i])
  IN r.ok
=============================================================================
