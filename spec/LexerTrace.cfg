SPECIFICATION Spec
CONSTANTS
  PipeIsDelimiter = TRUE
CHECK_DEADLOCK FALSE
