SPECIFICATION Spec
CONSTANTS
  Words = {"a", "b"}
  MaxLen = 3
  LooksAtLayout = FALSE
INVARIANT C05_RolesInvariant
CHECK_DEADLOCK FALSE
