---------------------------- MODULE CodeTagsOps ----------------------------
(***************************************************************************)
(* Code tags (property C11).                                               *)
(*                                                                         *)
(* Reference semantics, taken from docs/code_tags.rst: a file is a         *)
(* sequence of lines; a line is a tag comment                              *)
(*     -- vsg_off [ids]   -- vsg_on [ids]   -- vsg_disable_next_line ids   *)
(* or an ordinary line.  Suppressed(rule) on an ordinary line holds when   *)
(* the line is inside an unmatched bare vsg_off, or inside a vsg_off that  *)
(* names the rule and has not been followed by a vsg_on naming it (or a    *)
(* bare vsg_on), or when the line directly follows a run of consecutive    *)
(* vsg_disable_next_line comments one of which names the rule.             *)
(*                                                                         *)
(* Implementation: transcription of vsg/vhdlFile/code_tags.py (the tag     *)
(* state machine), vhdlFile.set_code_tags (stamping of every token) and    *)
(* parser.item.has_code_tag (the test a violation is filtered with).       *)
(*                                                                         *)
(* TLC runs both machines in lock step over every sequence of line kinds   *)
(* up to MaxLines and compares, on every ordinary line, the set of         *)
(* suppressed rules.  The tag-carrying lines themselves are unconstrained  *)
(* (the property speaks of what lies between tags / the following line).   *)
(***************************************************************************)
EXTENDS Naturals, Sequences, FiniteSets, SequencesExt

Ids   == {"a", "b"}          \* rule ids that tags may name
Rules == {"a", "b", "c"}     \* "c" stands for every rule no tag names
ALL   == "all"

\* ---- line kinds
IdSets == (SUBSET Ids) \ {{}}
LineKinds == {[k |-> "off", ids |-> {}], [k |-> "on", ids |-> {}], [k |-> "code", ids |-> {}]}
             \cup {[k |-> kk, ids |-> s] : kk \in {"off", "on", "next"}, s \in IdSets}

(***************************************************************************)
(* Reference machine                                                       *)
(***************************************************************************)
RefInit == [allOff |-> FALSE, off |-> {}, next |-> {}]
\* state after the line; nextLive: the next-line set that applies to the line that follows
RefStep(st, ln) ==
  CASE ln.k = "off" /\ ln.ids = {} -> [allOff |-> TRUE,  off |-> {},               next |-> {}]
    [] ln.k = "off"                -> [allOff |-> st.allOff, off |-> st.off \cup ln.ids, next |-> {}]
    [] ln.k = "on" /\ ln.ids = {}  -> [allOff |-> FALSE, off |-> {},               next |-> {}]
    [] ln.k = "on"                 -> [allOff |-> st.allOff, off |-> st.off \ ln.ids,    next |-> {}]
    [] ln.k = "next"               -> [allOff |-> st.allOff, off |-> st.off,             next |-> st.next \cup ln.ids]
    [] OTHER                       -> [allOff |-> st.allOff, off |-> st.off,             next |-> {}]
\* rules suppressed on an ordinary line read in state st (before the line is consumed)
RefSuppressed(st) == IF st.allOff THEN Rules ELSE st.off \cup st.next

(***************************************************************************)
(* Implementation machine (code_tags.New + set_code_tags + has_code_tag)   *)
(***************************************************************************)
ImplInit == [tags |-> <<>>, next |-> <<>>, ign |-> FALSE]
SeqAdd(s, x)    == IF x \in Range(s) THEN s ELSE Append(s, x)
SeqRemove(s, x) == SelectSeq(s, LAMBDA y : y # x)
\* ids are processed in the order they are written; the model fixes one order (a before b): the outcome as a set is order-free
IdSeq(S) == SetToSortSeq(S, LAMBDA x, y : x = "a" /\ y = "b")
GetTags(st) == st.tags \o st.next

\* update() on the comment token of a tag line
ImplComment(st, ln) ==
  CASE ln.k = "on"  -> IF ln.ids = {} THEN [st EXCEPT !.tags = <<>>, !.next = <<>>]                       \* clear()
                        ELSE [st EXCEPT !.tags = FoldLeft(SeqRemove, st.tags, IdSeq(ln.ids))]
    [] ln.k = "off" -> IF ln.ids = {} THEN [st EXCEPT !.tags = <<ALL>>, !.next = <<>>]                    \* clear(); add("all")
                        ELSE [st EXCEPT !.tags = FoldLeft(SeqAdd, st.tags, IdSeq(ln.ids))]
    [] ln.k = "next" -> [st EXCEPT !.next = FoldLeft(SeqAdd, st.next, IdSeq(ln.ids)), !.ign = TRUE]
    [] OTHER -> st
\* update() on the carriage return that ends every line
ImplCR(st) == IF st.ign THEN [st EXCEPT !.ign = FALSE] ELSE [st EXCEPT !.next = <<>>]

\* the stamp (token.code_tags) the tokens of an ordinary line receive, and the state after the line
ImplStampCode(st) == GetTags(st)
ImplStep(st, ln) == ImplCR(IF ln.k = "code" THEN st ELSE ImplComment(st, ln))

\* membership = TRUE: has_code_tag is  "all" in code_tags ;  FALSE: code_tags == ["all"]  (the pinned tree before the fix)
HasCodeTag(stamp, r, membership) ==
  \/ (IF membership THEN ALL \in Range(stamp) ELSE stamp = <<ALL>>)
  \/ r \in Range(stamp)
ImplSuppressedM(st, membership) == {r \in Rules : HasCodeTag(ImplStampCode(st), r, membership)}

=============================================================================
