----------------------------- MODULE ParseEmit -----------------------------
(***************************************************************************)
(* Text <-> token list at the lexical level (design content of C08 and of  *)
(* the last sentence of C02).  Emitting a token list concatenates the      *)
(* values; reading text back splits it into lines and each line into       *)
(* maximal runs: blanks, word characters, and a "--" comment that takes    *)
(* the rest of the line (VSG keeps blanks that trail the comment as a      *)
(* separate whitespace token); an empty line yields the zero-width blank   *)
(* marker.  TLC shows, for EVERY token list up to MaxLen:                   *)
(*       Parse(Emit(toks)) = toks   <=>   Canonical(toks)                  *)
(* i.e. the model of a fix run is re-read as the same tokens exactly when  *)
(* it is lexically canonical - which is what the trace specification       *)
(* watches after every step (Edits!Canonical, Edits!CommentEndsLine).      *)
(* Characters: "a" "b" word characters, " " blank, "C" stands for "--c".   *)
(***************************************************************************)
EXTENDS Naturals, Sequences, FiniteSets, SequencesExt, TLC
CONSTANTS MaxLen, RequireWordsSeparated   \* FALSE: the mutant that forgets "no two adjacent words"

W(v) == <<"W", v>>        \* a word token with its characters
S    == <<"S", <<" ">>>>  \* whitespace
N    == <<"N", <<>>>>     \* carriage return (the line break itself)
C(v) == <<"C", v>>        \* comment: "C" followed by what it swallowed
B    == <<"B", <<>>>>     \* zero-width blank-line marker
Alphabet == {W(<<"a">>), W(<<"b">>), S, N, C(<<"C">>), B}

EmitTok(t) == IF t[1] = "N" THEN <<"\n">> ELSE t[2]
Emit(toks) == FoldLeft(LAMBDA acc, t : acc \o EmitTok(t), <<>>, toks)

\* ---- reading one line (no "\n" inside)
RECURSIVE LexLine(_)
LexLine(cs) ==
  IF cs = <<>> THEN <<>>
  ELSE IF cs[1] = " " THEN
         LET n == CHOOSE k \in 1..Len(cs) : (\A i \in 1..k : cs[i] = " ") /\ (k = Len(cs) \/ cs[k+1] # " ")
         IN <<<<"S", SubSeq(cs, 1, n)>>>> \o LexLine(SubSeq(cs, n + 1, Len(cs)))
  ELSE IF cs[1] = "C" THEN
         \* the comment takes the rest of the line, except a trailing run of blanks
         LET tr == CHOOSE k \in 0..(Len(cs) - 1) : (\A i \in (Len(cs) - k + 1)..Len(cs) : cs[i] = " ") /\ cs[Len(cs) - k] # " "
         IN <<C(SubSeq(cs, 1, Len(cs) - tr))>> \o (IF tr > 0 THEN <<<<"S", SubSeq(cs, Len(cs) - tr + 1, Len(cs))>>>> ELSE <<>>)
  ELSE LET n == CHOOSE k \in 1..Len(cs) : (\A i \in 1..k : cs[i] \in {"a", "b"}) /\ (k = Len(cs) \/ cs[k+1] \notin {"a", "b"})
       IN <<W(SubSeq(cs, 1, n))>> \o LexLine(SubSeq(cs, n + 1, Len(cs)))
ParseLine(cs) == (IF cs = <<>> THEN <<B>> ELSE LexLine(cs)) \o <<N>>

RECURSIVE Parse(_)
Parse(text) ==        \* text ends with "\n" (every line that is read gets its carriage return)
  IF text = <<>> THEN <<>>
  ELSE LET n == CHOOSE k \in 1..Len(text) : text[k] = "\n" /\ \A i \in 1..(k - 1) : text[i] # "\n"
       IN ParseLine(SubSeq(text, 1, n - 1)) \o Parse(SubSeq(text, n + 1, Len(text)))

\* whitespace tokens are compared by kind only where VSG would merge them; here values are kept, so equality is exact
Canonical(toks) ==
  /\ \A i \in 1..Len(toks) : toks[i][1] = "B" => (i = 1 \/ toks[i-1][1] = "N") /\ (i < Len(toks) /\ toks[i+1][1] = "N")   \* marker alone on its line
  /\ \A i \in 1..(Len(toks) - 1) : ~(toks[i][1] = "S" /\ toks[i+1][1] = "S")                                            \* no two adjacent blanks tokens
  /\ (RequireWordsSeparated => \A i \in 1..(Len(toks) - 1) : ~(toks[i][1] = "W" /\ toks[i+1][1] = "W"))                 \* no two adjacent words
  /\ \A i \in 1..Len(toks) : toks[i][1] = "C" => \/ (i < Len(toks) /\ toks[i+1][1] = "N")                               \* a comment ends its line
                                                 \/ (i + 1 < Len(toks) /\ toks[i+1][1] = "S" /\ toks[i+2][1] = "N")
\* every empty line carries the marker (an N directly after an N or at the start would be read back with a marker)
EmptyLinesMarked(toks) == \A i \in 1..Len(toks) : toks[i][1] = "N" => (i > 1 /\ toks[i-1][1] # "N")
CanonicalFull(toks) == Canonical(toks) /\ EmptyLinesMarked(toks)

VARIABLE toks
Init == toks \in {s \in UNION {[1..m -> Alphabet] : m \in 1..MaxLen} : s[Len(s)][1] = "N"}
Next == UNCHANGED toks
Spec == Init /\ [][Next]_toks
C08_WriteIsReadIffCanonical == (Parse(Emit(toks)) = toks) <=> CanonicalFull(toks)
C02_CommentNeverAbsorbsCode == CanonicalFull(toks) => \A i \in 1..Len(Parse(Emit(toks))) : Parse(Emit(toks))[i][1] = "C" => Parse(Emit(toks))[i][2] = <<"C">>
=============================================================================
