------------------------------ MODULE CheckOps ------------------------------
(***************************************************************************)
(* rule_list.check_rules, report_violations and the exit status, as pure   *)
(* operators (properties C13, C14, C06).                                   *)
(*                                                                         *)
(* T : the rule table, a sequence (in rule-list order) of records          *)
(*       [id, phase, sub, err (severity is of error type), dis (disabled), *)
(*        nv (number of violations the rule's analysis finds on the file;  *)
(*            C06: a function of the file and the rule's configuration)]   *)
(***************************************************************************)
EXTENDS Naturals, Sequences, FiniteSets, SequencesExt, FiniteSetsExt

Phases    == 1..7
Subphases == 0..5
PS == [i \in 1..42 |-> <<((i - 1) \div 6) + 1, (i - 1) % 6>>]        \* (phase, subphase) in execution order

RulesIn(T, p, s) == SelectSeq(T, LAMBDA r : r.phase = p /\ r.sub = s /\ ~r.dis)
CountErr(rs)     == FoldLeft(LAMBDA acc, r : acc + (IF r.err THEN r.nv ELSE 0), 0, rs)

\* check_rules(bAllPhases = ap, lSkipPhase = skip).  breakInSubphase = FALSE is the code; TRUE is a mutant.
CheckGen(T, ap, skip, breakInSubphase) ==
  LET step(acc, ps) ==
        LET p == ps[1]  s == ps[2] IN
        IF acc.stop \/ p \in skip THEN acc
        ELSE LET rs   == RulesIn(T, p, s)
                 fail == acc.fail + CountErr(rs)
                 a2   == [fail |-> fail, ran |-> acc.ran + Len(rs), last |-> p, viol |-> acc.viol \/ fail > 0,
                          rules |-> acc.rules \cup {rs[k].id : k \in 1..Len(rs)}, stop |-> FALSE]
             IN IF a2.viol /\ ~ap /\ (s = 5 \/ breakInSubphase) THEN [a2 EXCEPT !.stop = TRUE] ELSE a2
  IN FoldLeft(step, [fail |-> 0, ran |-> 0, last |-> 0, viol |-> FALSE, rules |-> {}, stop |-> FALSE], PS)
Check(T, ap, skip) == CheckGen(T, ap, skip, FALSE)

\* what a run reports: every violation of every rule that was analysed (warnings included);
\* here as the set of <<rule, k>> for the k-th violation of the rule
Reported(T, res) == UNION {{<<T[i].id, k>> : k \in 1..T[i].nv} : i \in {j \in 1..Len(T) : T[j].id \in res.rules}}
PhaseOf(T, rid) == LET i == CHOOSE i \in 1..Len(T) : T[i].id = rid IN T[i].phase

\* C13: the first phase (not skipped) in which an error-type violation exists; 8 if none
FirstFailingPhase(T, skip) ==
  LET bad == {T[i].phase : i \in {j \in 1..Len(T) : ~T[j].dis /\ T[j].err /\ T[j].nv > 0 /\ T[j].phase \in Phases \ skip /\ T[j].sub \in Subphases}}
  IN IF bad = {} THEN 8 ELSE Min(bad)
GatedIsPrefixB(T, skip, b) ==
  LET g   == CheckGen(T, FALSE, skip, b)
      a   == CheckGen(T, TRUE, skip, b)
      ffp == FirstFailingPhase(T, skip)
  IN /\ Reported(T, g) = {v \in Reported(T, a) : PhaseOf(T, v[1]) <= ffp}
     /\ \A v \in Reported(T, a) : PhaseOf(T, v[1]) \notin skip
     /\ a.rules = {T[i].id : i \in {j \in 1..Len(T) : ~T[j].dis /\ T[j].phase \notin skip /\ T[j].phase \in Phases /\ T[j].sub \in Subphases}}
     /\ g.viol = (ffp # 8) /\ a.viol = g.viol                 \* exit contribution: exactly when an error-type violation exists
     /\ g.last = (IF ffp = 8 THEN (IF Phases \ skip = {} THEN 0 ELSE Max(Phases \ skip)) ELSE ffp)
GatedIsPrefix(T, skip) == GatedIsPrefixB(T, skip, FALSE)

(***************************************************************************)
(* C14: the report formats as projections of one set of violations         *)
(*   a violation tuple: <<file, rule, line, solution, severity name, err>>  *)
(***************************************************************************)
ProjStd(S)       == {<<v[1], v[2], v[3], v[4], v[5]>> : v \in S}           \* vsg / syntastic / json: every violation
ProjJUnit(S)     == {<<v[1], v[2], v[3], v[4]>> : v \in {w \in S : w[6]}}  \* junit lists error-type violations only
ExitStatus(S, procErr) == IF procErr \/ \E v \in S : v[6] THEN 1 ELSE 0
=============================================================================
