------------------------------- MODULE Lexer -------------------------------
(***************************************************************************)
(* The contract of VSG's line tokenizer (property C04, first sentence):    *)
(* whatever the nine passes of tokens.create do, each one only REGROUPS    *)
(* the characters of the line.  Hence join(tokenize(s)) = s.               *)
(* LexerImpl.tla (the transcription of vsg/tokens.py) refines this module; *)
(* LexerTrace.tla checks recorded executions of the real code against it.  *)
(***************************************************************************)
EXTENDS Naturals, Sequences, SequencesExt
VARIABLES input, chunks, pc

Flatten(cs) == FoldLeft(LAMBDA acc, c : acc \o c, <<>>, cs)
Regrouping(a, b) == Flatten(a) = Flatten(b)

Init == /\ chunks = [i \in 1..Len(input) |-> <<input[i]>>]
        /\ pc = 0
Pass == /\ pc < 9
        /\ pc' = pc + 1
        /\ Regrouping(chunks, chunks')
        /\ UNCHANGED input
Spec == Init /\ [][Pass]_<<input, chunks, pc>>

Lossless == Flatten(chunks) = input
=============================================================================
