----------------------------- MODULE LexerTrace -----------------------------
(***************************************************************************)
(* Recorded executions of the real tokens.create (every pass wrapped)      *)
(* checked against the contract Lexer.tla and, for strings over the model  *)
(* alphabet, against the pass-by-pass prediction of LexerOps.tla.          *)
(* One initial state per recorded string; no next-state relation needed.   *)
(*   C04_*   : the real code breaks the contract (a property violation)    *)
(*   DRIFT_* : the real code is still a regrouping but differs from the    *)
(*             transcription (the model must be updated; not a violation)  *)
(***************************************************************************)
EXTENDS LexerOps, TLC, Json, IOUtils

Data == JsonDeserialize(IOEnv.TRACE_FILE)
Recs == Data.recs
VARIABLE n
Chk(name, k, ok) == IF ok THEN TRUE ELSE PrintT(<<"V", Recs[n].id, k, name>>)

CheckRec(r) ==
  /\ Chk("C04_InitialIsChars", 0, r.passes[1] = Chars0(r.input))
  /\ \A k \in 1..9 :
       /\ Chk("C04_Lossless", k, Flatten(r.passes[k + 1]) = r.input)
       /\ (r.exact => Chk("DRIFT_PassDiffersFromModel", k, r.passes[k + 1] = Pass(k, r.passes[k])))
  /\ Chk("C04_FinalNoEmptyChunk", 9, \A i \in 1..Len(r.passes[10]) : r.passes[10][i] # <<>>)
  /\ Chk("C04_FinalEqualsCreate", 9, r.final = r.passes[10])
  \* C05 at the lexical level, on what the real code produced: in a line without quotes / backslashes every final chunk of two
  \* or more characters is a blank run, a compound delimiter of the language (fsym, decided by the harness from the LRM list,
  \* not from VSG's tables) or free of delimiter characters (fcls: per character 1 blank, 2 VHDL delimiter, 3 quote or
  \* backslash, 0 anything else)
  /\ Chk("C05_DelimitersSeparate", 9,
         (\A i \in 1..Len(r.fcls) : \A k \in 1..Len(r.fcls[i]) : r.fcls[i][k] # 3) =>
            \A i \in 1..Len(r.fcls) : Len(r.fcls[i]) >= 2 =>
                 \/ \A k \in 1..Len(r.fcls[i]) : r.fcls[i][k] = 1
                 \/ r.fsym[i]
                 \/ \A k \in 1..Len(r.fcls[i]) : r.fcls[i][k] # 2)

Init == n \in 1..Len(Recs) /\ CheckRec(Recs[n])
Next == FALSE /\ n' = n
Spec == Init /\ [][Next]_n
=============================================================================
