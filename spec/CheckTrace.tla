----------------------------- MODULE CheckTrace -----------------------------
(***************************************************************************)
(* Recorded check / report / fix-selection runs of the real VSG validated  *)
(* against CheckOps.tla.  One record per scenario, by type:                *)
(*                                                                         *)
(*  "gating" (C13): the rule table as configured, the violations every     *)
(*      rule finds on the file (taken from an --all_phases run), and a     *)
(*      number of runs (ap, skip) with what they reported; TLC EXECUTES    *)
(*      the specification's Check on the recorded violations and the       *)
(*      observation must equal the prediction.                             *)
(*  "equiv"  (C13, C20, C12, C17): two runs that the property says are     *)
(*      equivalent, with their (interned) texts / reports / exit status.   *)
(*  "purity" (C06): repeat, permuted order, disabled subsets.              *)
(*  "formats" (C14): one CLI run; ground truth set of violations and what  *)
(*      each report format lists, counts printed, exit status.             *)
(*  "fixonly" (C20): a --fix_only selection and the lines that changed.    *)
(***************************************************************************)
EXTENDS CheckOps, TLC, Json, IOUtils, Integers

Data == JsonDeserialize(IOEnv.TRACE_FILE)
Recs == Data.recs
VARIABLE n
R == Recs[n]
Chk(name, k, ok) == IF ok THEN TRUE ELSE PrintT(<<"V", Recs[n].id, k, name>>)

\* ---------------------------------------------------------------------------------------------------- gating
\* T rows: <<id, phase, sub, err, dis, nv>> ; violations: <<rule id, line, solution, phase of the rule>>
TableOf(r) == [i \in 1..Len(r.T) |-> [id |-> r.T[i][1], phase |-> r.T[i][2], sub |-> r.T[i][3], err |-> r.T[i][4] = 1, dis |-> r.T[i][5] = 1, nv |-> r.T[i][6]]]
RepSet(vs, res) == {v \in vs : v[1] \in res.rules}

CheckGating(r) ==
  LET T  == TableOf(r)
      vs == Range(r.V)
  IN /\ Chk("B_CountsMatchViolations", 0, \A i \in 1..Len(T) : T[i].nv > 0 => Cardinality({v \in vs : v[1] = T[i].id}) <= T[i].nv)
     /\ \A k \in 1..Len(r.runs) :
       LET run == r.runs[k]
           sk  == Range(run.skip)
           res == Check(T, run.ap, sk)
           all == Check(T, TRUE, sk)
           ffp == FirstFailingPhase(T, sk)
           got == Range(run.reported)
       IN /\ Chk("C13_ReportedAsSpecified", k, got = RepSet(vs, res))
          /\ Chk("C13_LastPhase", k, run.last = res.last)
          /\ Chk("C13_RulesRan", k, run.ran = res.ran)
          /\ Chk("C13_StatusIffErrorViolation", k, run.status = res.viol)
          /\ Chk("C13_SkippedNotReported", k, \A v \in got : v[4] \notin sk)
          /\ Chk("C13_GatedIsPrefix", k, run.ap \/ got = {v \in RepSet(vs, all) : v[4] <= ffp})

\* ---------------------------------------------------------------------------------------------------- equivalent runs
CheckEquiv(r) ==
  /\ Chk(r.clause \o "_Text", 0, r.a.text = r.b.text)
  /\ Chk(r.clause \o "_Report", 0, Range(r.a.reported) = Range(r.b.reported))
  /\ Chk(r.clause \o "_Status", 0, r.a.status = r.b.status)

\* ---------------------------------------------------------------------------------------------------- purity (C06)
\* rows of T indexed by rule id
Row(T, rid) == T[CHOOSE i \in 1..Len(T) : T[i].id = rid]
CheckPurity(r) ==
  LET T == TableOf(r)
      base == Range(r.V)
  IN /\ Chk("C06_AnalyzePure", 0, r.impure = <<>>)
     /\ Chk("C06_TextUnchanged", 0, r.textSame)
     /\ Chk("C06_Repeat", 0, Range(r.V2) = base)
     /\ Chk("C06_OrderIndependent", 0, \A k \in 1..Len(r.perms) : Range(r.perms[k]) = base)
     /\ \A k \in 1..Len(r.subsets) :
          LET D == Range(r.subsets[k].D)
              Drows == {Row(T, d) : d \in D}
              \* documented: a later sub-phase may depend on an earlier sub-phase of the same phase
              dep(x) == LET rx == Row(T, x) IN \E rd \in Drows : rd.phase = rx.phase /\ rd.sub < rx.sub
              got == Range(r.subsets[k].V)
          IN /\ Chk("C06_DisableRemovesTheirs", k, \A v \in got : v[1] \notin D)
             /\ Chk("C06_DisableRemovesOnlyTheirs", k, \A v \in base : (v[1] \notin D /\ ~dep(v[1])) => v \in got)
             /\ Chk("C06_DisableAddsNothing", k, \A v \in got : ~dep(v[1]) => v \in base)

\* ---------------------------------------------------------------------------------------------------- formats (C14)
\* truth: sequence of <<file, rule, line, sol, sevname, err(0/1)>> ; every format: sequence of tuples in its own projection
CheckFormats(r) ==
  LET S == Range(r.truth)                  \* <<file, rule, line, sol, sevname, err (0/1)>>
      isErr(v) == v[6] = 1
  IN /\ Chk("C14_Stdout", 0, ~r.has.stdout \/ Range(r.stdout) = {<<v[1], v[2], v[3], v[4], v[5]>> : v \in S})
     /\ Chk("C14_StdoutCounts", 0, ~r.has.stdout \/ r.stdoutCountsOk)
     /\ Chk("C14_Syntastic", 0, ~r.has.syntastic \/ Range(r.syntastic) = {<<v[1], v[2], v[3], v[4], v[6]>> : v \in S})
     /\ Chk("C14_Summary", 0, ~r.has.summary \/ \A f \in Range(r.files) :
                \E x \in Range(r.summary) : x[1] = f /\ x[2] = Len(SelectSeq(r.truth, LAMBDA v : v[1] = f /\ isErr(v)))
                                                    /\ (x[3] = 1) = (\E v \in S : v[1] = f /\ isErr(v)))
     /\ Chk("C14_Json", 0, ~r.has.json \/ Range(r.json) = {<<v[1], v[2], v[3], v[4], v[5]>> : v \in S})
     /\ Chk("C14_JUnit", 0, ~r.has.junit \/ Range(r.junit) = {<<v[1], v[2], v[3], v[4]>> : v \in {w \in S : isErr(w)}})
     /\ Chk("C14_JUnitCounts", 0, ~r.has.junit \/ r.junitCountsOk)
     /\ Chk("C14_Quality", 0, ~r.has.quality \/ Range(r.quality) = {<<v[1], v[2], v[3], v[4], v[6]>> : v \in S})
     /\ Chk("C14_ExitIffError", 0, r.exit = (IF r.procErr \/ \E v \in S : isErr(v) THEN 1 ELSE 0))
     /\ Chk("C19_NoCrash", 0, r.status = "ok")
     \* every file of the command line has its entry, in command-line order, in the JSON file and in the JUnit file
     /\ Chk("C14_JsonListsEveryFileInOrder", 0, ~r.has.json \/ r.stopped \/ r.jsonFiles = r.cmdFiles)
     /\ Chk("C14_JUnitListsEveryFileInOrder", 0, ~r.has.junit \/ r.stopped \/ r.junitFiles = r.cmdFiles)

\* ---------------------------------------------------------------------------------------------------- fix_only (C20)
CheckFixOnly(r) ==
  /\ Chk("C20_AllEqualsPlainFix", 0, r.kind # "all" \/ r.text = r.textPlain)
  /\ Chk("C20_NothingListedNothingChanged", 0, r.kind # "none" \/ (r.text = r.textOrig /\ r.untouched))
  /\ Chk("C20_OnlyListedRulesFix", 0, Range(r.fixedRules) \subseteq Range(r.listedRules))
  /\ Chk("C20_OnlyListedLines", 0, r.kind # "lines" \/ Range(r.fixedLines) \subseteq Range(r.listedLines))
  /\ Chk("C20_ListedLinesChange", 0, r.kind # "lines" \/ ~r.lineLocal \/ Range(r.changedLines) = (Range(r.listedLines) \cap Range(r.reportedLines)))

\* ---------------------------------------------------------------------------------------------------- damaged inputs (C19)
\* a damaged copy of an accepted file is either still accepted (and then checked / fixed without a crash) or rejected with a
\* located one-line syntax message and a non-zero status; never an unhandled exception
CheckRobust(r) ==
  /\ Chk("C19_NoCrash", 0, r.outcome # "crash")
  /\ Chk("C19_Terminates", 0, r.outcome # "hang")
  /\ Chk("C19_RejectionIsLocated", 0, r.outcome # "rejected" \/ r.located)
  /\ Chk("C19_RejectionIsAnError", 0, r.outcome # "rejected" \/ r.exit)

Init == /\ n \in 1..Len(Recs)
        /\ CASE R.t = "gating"  -> CheckGating(R)
             [] R.t = "equiv"   -> CheckEquiv(R)
             [] R.t = "purity"  -> CheckPurity(R)
             [] R.t = "formats" -> CheckFormats(R)
             [] R.t = "fixonly" -> CheckFixOnly(R)
             [] R.t = "robust"  -> CheckRobust(R)
             [] OTHER -> Chk("B_UnknownRecord", 0, FALSE)
Next == FALSE /\ n' = n
Spec == Init /\ [][Next]_n
=============================================================================
