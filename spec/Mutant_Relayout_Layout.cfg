SPECIFICATION Spec
CONSTANTS
  Words = {"a", "b"}
  MaxLen = 3
  LooksAtLayout = TRUE
INVARIANT C05_RolesInvariant
CHECK_DEADLOCK FALSE
