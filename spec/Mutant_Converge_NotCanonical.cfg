SPECIFICATION Spec
CONSTANTS
  NRules = 3
  Idempotent = TRUE
  Discipline = TRUE
  Canonical = FALSE
INVARIANT C09_SecondFixChangesNothing
CHECK_DEADLOCK FALSE
