------------------------------ MODULE FixTrace ------------------------------
(***************************************************************************)
(* Trace validation of recorded fix runs of the real VSG against the fix   *)
(* pipeline specification.  One TLC run validates a whole shard of traces  *)
(* (tid selects the trace, l the next event).  Every clause is named; a    *)
(* failed clause is printed  <<"V", tid, l, clause>>  and the search goes  *)
(* on from the logged post-state, so the rest of the trace is still        *)
(* checked (the pinned tree has genuine defects; TLC must not stop at the  *)
(* first).  Clauses starting with "B_" are binding clauses: their failure  *)
(* means the harness and the model disagree about what happened            *)
(* (machinery error), not that a property is violated.                     *)
(***************************************************************************)
EXTENDS Edits, TLC, TLCExt, Json, IOUtils

Data   == JsonDeserialize(IOEnv.TRACE_FILE)
Traces == Data.traces
NT     == Len(Traces)

VARIABLES tid,      \* which trace
          l,        \* next event
          toks,     \* the token list (vhdlFile.lAllObjects), abstracted
          stale,    \* the role -> positions index may disagree with toks
          fixPhase, skip, lastPS,  \* --fix_phase, skip_phase, last (phase, subphase) that fixed
          indentFresh,             \* token indents were recomputed after the last structural / vertical change
          normDone,                \* the phase-1 clean-up has happened in this fix run
          lastPre                  \* the last rule that fixed in the current (phase, subphase) has prerequisites
vars == <<tid, l, toks, stale, fixPhase, skip, lastPS, indentFresh, normDone, lastPre>>

Chk(name, ok) == IF ok THEN TRUE ELSE PrintT(<<"V", Traces[tid].tid, l, name>>)

E == Traces[tid].ev[l]

Init == /\ tid \in 1..NT
        /\ l = 1
        /\ toks = <<>>
        /\ stale = FALSE
        /\ fixPhase = 7 /\ skip = {} /\ lastPS = <<0, 0>>
        /\ indentFresh = TRUE /\ normDone = FALSE /\ lastPre = FALSE

Same == UNCHANGED <<toks, stale, fixPhase, skip, lastPS, indentFresh, normDone, lastPre>>

\* --------------------------------------------------------------------------------------------- Parse
Parse ==
  /\ E.e = "Parse"
  /\ Chk("C04_AllClassified", E.raw = 0)
  /\ Chk("C04_EmitEqualsRead", E.rt)
  /\ Chk("C04_ReadEqualsDisk", E.disk)             \* the lines that were read are the lines of the file (CR LF / LF / CR separate lines, nothing else does)
  /\ Chk("C04_LineWidths", LET ls == LineSeq(E.toks) IN
                             /\ Len(ls) = Len(E.lineLens)
                             /\ \A k \in 1..Len(ls) : FoldLeft(LAMBDA acc, t : acc + t[3], 0, ls[k]) = E.lineLens[k])
  /\ Chk("C02_CommentEndsLine", CommentEndsLine(E.toks))
  /\ toks' = E.toks /\ stale' = FALSE
  /\ indentFresh' = TRUE /\ normDone' = FALSE         \* set_indent_map follows the parse
  /\ UNCHANGED <<fixPhase, skip, lastPS, lastPre>>

\* --------------------------------------------------------------------------------------------- Fix
CodeCtxLeft(s, pos)  == LET c == NV(Code(SubSeq(s, IF pos > 40 THEN pos - 40 ELSE 1, pos))) IN SubSeq(c, IF Len(c) > 3 THEN Len(c) - 2 ELSE 1, Len(c))
CodeCtxRight(s, pos) == LET c == NV(Code(SubSeq(s, pos, IF pos + 40 < Len(s) THEN pos + 40 ELSE Len(s)))) IN SubSeq(c, 1, IF Len(c) > 3 THEN 3 ELSE Len(c))
NamesBefore(s, pos)  == {s[i][F_NV] : i \in {j \in 1..pos : s[j][F_K] = CODE}}

LineLocalClass(e) == e.cls = "CASE" \/ (e.cls = "WS" /\ e.phase \in {2, 4, 5, 6})

FixStep ==
  /\ E.e = "Fix"
  /\ LET e   == E
         ws  == e.win
         nw  == Len(ws)
         spl == IF e.silent THEN e.full ELSE ApplyWindows(toks, ws)      \* what update() is specified to produce
         t2  == IF e.resync THEN e.full ELSE spl                         \* the list the implementation really has
         named == Range(e.named)
         namedNV == IF e.cls = "CASE" /\ named # {} THEN {toks[i][F_NV] : i \in {j \in 1..Len(toks) : toks[j][F_R] \in named}} ELSE {}
     IN
     \* ---- binding: the model and the implementation are looking at the same list
     /\ Chk("B_AfterIdentity", Us(t2) = e.afterU)
     \* ---- C18: update() overwrites exactly the analysed windows, last first (the harness sends the full list when it does not)
     /\ Chk("C18_SpliceExact", e.silent \/ Us(spl) = e.afterU)
     \* ---- C18: the windows are the tokens that were analysed, spliced where they sit, nothing else moves
     /\ Chk("C18_ViaUpdate", ~e.silent)
     /\ Chk("C18_WindowsExact", \A k \in 1..nw : WindowExact(toks, ws[k]))
     /\ Chk("C18_ToiIsSlice", \A k \in 1..nw : /\ ws[k].ts = ws[k].s /\ ws[k].te = ws[k].s + ws[k].n
                                                /\ WindowInRange(toks, ws[k])
                                                /\ ws[k].toiU = Us(SubSeq(toks, ws[k].s + 1, ws[k].s + ws[k].n)))
     /\ Chk("C18_NoCollateral", e.silent \/ (NoCollateral(Us(toks), Us(t2), ws) /\ e.collat = <<>>))
     /\ Chk("C18_StepIsSumOfHunks", e.silent \/ StepIsSumOfHunks(toks, t2, ws, {CODE, WS, CR, BLANK, CMT, DCMT, PRAGMA, PREPROC, IGN}))
     \* ---- C01: code tokens
     /\ Chk("C01_StepCode", e.silent \/ StepIsSumOfHunks(toks, t2, ws, {CODE}))
     /\ Chk("C01_CodeOnlyByStructural", e.cls = "STRUCT" \/ NV(Code(toks)) = NV(Code(t2)))
     /\ Chk("C01_LiteralsExact", \A k \in 1..nw :
              LET a == Code(ws[k].pre)  b == Code(ws[k].post)
              IN Len(a) = Len(b) => \A i \in 1..Len(a) : (a[i][F_LIT] \in ExactLits \/ b[i][F_LIT] \in ExactLits) => a[i][F_XV] = b[i][F_XV])
     /\ Chk("C01_Vocabulary", e.cls # "STRUCT" \/ \A k \in 1..nw :
              ExplainsCode(NV(Code(ws[k].pre)), NV(Code(ws[k].post)),
                           CodeCtxLeft(toks, ws[k].s), CodeCtxRight(toks, ws[k].s + ws[k].n + 1), NamesBefore(toks, ws[k].s)))
     \* a structural fix leaves every name after 'end block' / 'end process' equal to the label of the statement it closes
     /\ Chk("C01_EndNameMatches", e.cls # "STRUCT" \/ LET c0 == NV(Code(toks))  c1 == NV(Code(t2)) IN
              c0 = c1 \/ \A kw \in {W_BLOCK, W_PROCESS} : EndNamesMatch(c0, kw) => EndNamesMatch(c1, kw))
     \* ---- C02: comments
     /\ Chk("C02_StepComments", e.silent \/ StepIsSumOfHunks(toks, t2, ws, CommentKinds))
     /\ Chk("C02_CommentsKept", \A k \in 1..nw : \/ CommentsSame(ws[k].pre, ws[k].post)
                                                 \/ (e.mayDrop /\ CommentsOnlyDropped(ws[k].pre, ws[k].post)))
     /\ Chk("C02_CommentEndsLine", ~CommentEndsLine(toks) \/ CommentEndsLine(t2))     \* reported where it is introduced
     \* ---- informational (never a finding by itself): the step that leaves the list lexically non-canonical; used to
     \*      attribute a divergence between the final model and its re-read text (C08) to a rule
     /\ Chk("I_Canonical", ~Canonical(toks) \/ Canonical(t2))
     \* ---- C03: effect within the documented class
     /\ Chk("C03_NoneNeverFixes", e.cls # "NONE" /\ e.fixable /\ e.sevErr)
     /\ Chk("C03_ClassKnown", e.cls \in {"STRUCT", "WS", "VERT", "CASE", "NONE"})
     /\ Chk("C03_WsOnly",   e.cls # "WS"   \/ \A k \in 1..nw : WsOnly(ws[k].pre, ws[k].post))
     /\ Chk("C03_VertOnly", e.cls # "VERT" \/ \A k \in 1..nw : VertOnly(ws[k].pre, ws[k].post))
     /\ Chk("C03_CaseOnly", e.cls # "CASE" \/ \A k \in 1..nw : CaseOnly(ws[k].pre, ws[k].post, named, namedNV))
     \* ---- C07: exactly the reported lines
     /\ Chk("C07_InFile", \A i \in 1..Len(e.rep) : e.rep[i] >= 1 /\ e.rep[i] <= NumLines(toks))
     /\ Chk("C07_LineCount", ~LineLocalClass(e) \/ NumLines(t2) = NumLines(toks))
     /\ Chk("C07_ChangedButNotReported", ~LineLocalClass(e) \/ ChangedLines(toks, t2) \subseteq Range(e.kept))
     /\ Chk("C07_ReportedButUnchanged", ~LineLocalClass(e) \/ Range(e.kept) \subseteq ChangedLines(toks, t2))
     \* ---- C11: a rule never edits a token that carries a code tag naming it (or the bare tag)
     /\ Chk("C11_NoFixWhereTagged", \A k \in 1..nw : ~ws[k].tagged)
     \* ---- C13 / C20: only what --fix_phase, skip_phase and --fix_only allow, in phase order
     /\ Chk("C13_FixPhase", e.phase <= fixPhase /\ e.phase \notin skip)
     /\ Chk("C13_PhaseOrder", e.phase > lastPS[1] \/ (e.phase = lastPS[1] /\ e.sub >= lastPS[2]))
     \* ---- schedule of rule_list.fix (mechanisms behind C09): the phase-1 clean-up precedes phase 2, and the indent
     \*      levels the phase-4 (indent) rules apply were recomputed after the last phase 1-3 change
     \* inside a sub-phase the rules with prerequisites run after the others (rule_list.enforce_prerequisites)
     /\ Chk("C13_PrerequisitesLast", ~(<<e.phase, e.sub>> = lastPS /\ lastPre /\ ~e.prereq))
     /\ Chk("C09_CleanUpBeforePhase2", e.phase < 2 \/ normDone \/ 1 \in skip)
     /\ Chk("C09_IndentRecomputedBeforePhase4", e.phase < 4 \/ 4 \in skip \/ indentFresh)
     /\ Chk("C20_OnlyListed", \/ e.sel.m \in {-1, 1}
                              \/ (e.sel.m = 2 /\ \A k \in 1..nw : ws[k].line \in Range(e.sel.lines)))
     /\ toks' = t2
     /\ stale' = IF e.remap THEN FALSE ELSE (stale \/ Proj(t2, F_R) # Proj(toks, F_R))
     /\ lastPS' = <<e.phase, e.sub>>
     /\ indentFresh' = IF e.phase <= 3 THEN FALSE ELSE indentFresh
     /\ lastPre' = e.prereq
     /\ UNCHANGED <<fixPhase, skip, normDone>>

\* --------------------------------------------------------------------------------------------- index check at the next analysis
IdxStep ==
  /\ E.e = "Idx"
  /\ Chk("C18_IndexAgrees", E.ok)
  \* the model's own prediction (remap discipline of FixPipeline): an index the model expects to be fresh must be fresh
  /\ Chk("C18_RemapDiscipline", stale \/ E.ok)
  /\ stale' = ~E.ok
  /\ UNCHANGED <<toks, fixPhase, skip, lastPS, indentFresh, normDone, lastPre>>

AnalyzeStep ==
  /\ E.e = "Analyze"
  /\ Chk("C18_ToiIsSlice", \A i \in 1..Len(E.toiBad) : E.toiBad[i].slice)
  /\ Chk("C06_AnalyzePure", E.pure)
  /\ Same

\* --------------------------------------------------------------------------------------------- phase 1 normalisation
NoBlank(s) == SelectSeq(s, LAMBDA t : t[F_K] # BLANK)
DropTrailingWs(s) ==
  LET keep == {i \in 1..Len(s) : ~(s[i][F_K] = WS /\ i < Len(s) /\ s[i+1][F_K] = CR)}
      ks   == SetToSortSeq(keep, <)
  IN [j \in 1..Len(ks) |-> s[ks[j]]]
NormStep ==
  /\ E.e = "Norm"
  /\ Chk("C03_NormEffect", NoBlank(E.toks) = DropTrailingWs(NoBlank(toks)))
  /\ Chk("I_Canonical", ~Canonical(toks) \/ Canonical(E.toks))
  /\ Chk("C13_CleanUpBelongsToPhase1", 1 \notin skip /\ lastPS[1] <= 1)
  /\ toks' = E.toks /\ stale' = FALSE /\ normDone' = TRUE
  /\ indentFresh' = FALSE
  /\ UNCHANGED <<fixPhase, skip, lastPS, lastPre>>

SetIndentStep ==
  /\ E.e = "SetIndent"
  /\ indentFresh' = TRUE
  /\ UNCHANGED <<toks, stale, fixPhase, skip, lastPS, normDone, lastPre>>

FixBegin ==
  /\ E.e = "FixBegin"
  /\ fixPhase' = E.fixPhase /\ skip' = Range(E.skip) /\ lastPS' = <<0, 0>> /\ normDone' = FALSE /\ lastPre' = FALSE
  /\ UNCHANGED <<toks, stale, indentFresh>>

\* the token list changed between two observed actions (something other than a rule's update() or the phase-1 clean-up
\* rewrote it): reported, and the model continues from the list as it now is
Unobserved ==
  /\ E.e = "Unobserved"
  /\ Chk("C18_NoUnobservedChange", FALSE)
  /\ toks' = E.toks /\ stale' = TRUE
  /\ UNCHANGED <<fixPhase, skip, lastPS, indentFresh, normDone, lastPre>>

FixEnd ==
  /\ E.e = "FixEnd"
  /\ Chk("C18_NoUnobservedChange", toks = E.toks)
  /\ toks' = E.toks
  /\ UNCHANGED <<stale, fixPhase, skip, lastPS, indentFresh, normDone, lastPre>>

\* --------------------------------------------------------------------------------------------- C08, C10, C19
Reparse ==
  /\ E.e = "Reparse"
  /\ Chk("C08_Accepted", E.ok)
  /\ Chk("C08_SameTokens", ~E.ok \/ KXR(E.toks) = KXR(toks))
  \* C01 end to end: the code tokens of the text that is written are the code tokens of the model (nothing merged into a comment)
  /\ Chk("C01_WrittenCodeEqualsModel", ~E.ok \/ NV(Code(E.toks)) = NV(Code(toks)))
  /\ Chk("C02_WrittenCommentsEqualModel", ~E.ok \/ KN(Comments(E.toks)) = KN(Comments(toks)))
  /\ Chk("C08_SameIndent", ~E.ok \/ KXR(E.toks) # KXR(toks) \/ E.ind1 = E.ind2)
  /\ Same

\* C08, second sentence: what the --fix run reports at its end is what a fresh check of the written file reports
FreshCheck ==
  /\ E.e = "FreshCheck"
  /\ Chk("C08_FreshCheckRuns", E.ok)
  /\ Chk("C08_ReportIsFreshReport", ~E.ok \/ Range(E.vfix) = Range(E.vfresh))
  /\ Same

Probe ==
  /\ E.e = "Probe"
  /\ Chk("C10_RefixNoCrash", E.crash = "")
  /\ Chk("C10_RefixChangesNothing", ~E.changed)
  /\ Chk("C10_OnlyUnrepairableLeft", E.same)
  /\ Same

Crash ==
  /\ E.e \in {"Crash", "RunCrash", "FixAbort", "CheckAbort"}
  /\ Chk("C19_NoCrash", FALSE)
  /\ Same

Hang ==
  /\ E.e = "RunHang"
  /\ Chk("C19_Terminates", FALSE)
  /\ Same

Machinery ==
  /\ E.e = "Machinery"
  /\ Chk("B_Machinery", FALSE)
  /\ Same

Other ==
  /\ E.e \in {"CheckBegin", "CheckEnd", "CheckViol", "Round", "Rejected"}
  /\ Same

\* C09: texts[k] = (interned) text of the file after the k-th --fix of the same file under the same configuration
Texts == Traces[tid].texts
End ==
  /\ E.e = "End"
  /\ Chk("C09_SecondFixChangesNothing", Len(Texts) < 2 \/ Texts[2] = Texts[1])
  \* C04: a --fix run in which no fixable violation was found leaves the file untouched (same inode, mtime, bytes)
  /\ Chk("C04_CleanUntouched", \A k \in 1..Len(Traces[tid].rounds) :
            LET rd == Traces[tid].rounds[k] IN (rd.nfix = 0 /\ rd.ok) => (rd.sameInode /\ rd.sameMtime /\ rd.sameBytes))
  /\ Chk("C09_NoOscillation", \A i, j \in 1..Len(Texts) : (i < j /\ Texts[i] = Texts[j]) => \A k \in i..j : Texts[k] = Texts[i])
  /\ Chk("C09_EventuallyConstant", Len(Texts) < 3 \/ Texts[Len(Texts)] = Texts[Len(Texts) - 1])
  /\ PrintT(<<"DONE", Traces[tid].tid, l>>)
  /\ Same

Next == /\ l <= Len(Traces[tid].ev)
        /\ (Parse \/ FixStep \/ SetIndentStep \/ IdxStep \/ AnalyzeStep \/ NormStep \/ FixBegin \/ FixEnd \/ Unobserved \/ Reparse \/ FreshCheck \/ Probe \/ Crash \/ Hang \/ Machinery \/ Other \/ End)
        /\ l' = l + 1 /\ tid' = tid

Spec == Init /\ [][Next]_vars
=============================================================================
