SPECIFICATION Spec
CONSTANTS
  MaxLen = 6
  RequireWordsSeparated = TRUE
INVARIANT C08_WriteIsReadIffCanonical
INVARIANT C02_CommentNeverAbsorbsCode
CHECK_DEADLOCK FALSE
