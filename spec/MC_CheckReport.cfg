SPECIFICATION Spec
CONSTANTS
  NRules = 3
  PhaseSet = {1, 2, 3}
  SubSet = {1, 2}
  MaxViol = 1
  BreakInSubphase = FALSE
INVARIANT C13_GatedIsPrefix
INVARIANT C13_WarningsNeverGate
CHECK_DEADLOCK FALSE
