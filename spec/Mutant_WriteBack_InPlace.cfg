SPECIFICATION Spec
CONSTANTS
  OrigModes = {420, 436, 292}
  CreateModes = {420, 384}
  StaleModes = {384}
  MaxChunks = 3
  ChmodBeforeReplace = TRUE
  ViaTemporary = FALSE
INVARIANT C16_Atomic
INVARIANT C16_ModeKept
INVARIANT C16_BackupFaithful
INVARIANT C16_TmpGone
INVARIANT C16_ProtocolClosed
CHECK_DEADLOCK FALSE
