--------------------------- MODULE CodeTagsTrace ---------------------------
(***************************************************************************)
(* Conformance of the real parser / rule filter with the code-tag          *)
(* semantics (C11).  Two kinds of record:                                  *)
(*  "stamps": a generated file (one line per element of `lines`) parsed by *)
(*     the real vhdlFile; obs[i] = the rules (of a, b, c) for which        *)
(*     token.has_code_tag is true on line i.  Checked against the          *)
(*     reference machine on every ordinary line (C11 clauses), and against the   *)
(*     transcription of the implementation (DRIFT clauses).                      *)
(*  "report": a corpus file with tag comments planted at line boundaries,  *)
(*     checked by the real rule set, and its twin in which every tag       *)
(*     comment is replaced by a neutral comment.  kinds[i] = line kind of  *)
(*     line i (tags name the real rules through ids "a", "b"), vt / vn =   *)
(*     violations <<rule, line, lo, hi>> of the tagged / neutral file with *)
(*     rule in {"a","b","c"} ("c" = any rule no tag names).                *)
(***************************************************************************)
EXTENDS CodeTagsOps, TLC, Json, IOUtils, Integers

Data == JsonDeserialize(IOEnv.TRACE_FILE)
Recs == Data.recs
VARIABLE n
Chk(name, k, ok) == IF ok THEN TRUE ELSE PrintT(<<"V", Recs[n].id, k, name>>)

Line(l) == [k |-> l.k, ids |-> Range(l.ids)]
\* state of the reference / implementation machine BEFORE line i
RefBefore(lines, i)  == FoldLeft(LAMBDA st, l : RefStep(st, Line(l)), RefInit, SubSeq(lines, 1, i - 1))
ImplBefore(lines, i) == FoldLeft(LAMBDA st, l : ImplStep(st, Line(l)), ImplInit, SubSeq(lines, 1, i - 1))
RefStates(lines) == [i \in 1..Len(lines) |-> RefBefore(lines, i)]

CheckStamps(r) ==
  \A i \in 1..Len(r.lines) :
    r.lines[i].k = "code" =>
      /\ Chk("C11_SuppressedAgrees", i, Range(r.obs[i]) = RefSuppressed(RefBefore(r.lines, i)))
      /\ Chk("DRIFT_ImplModel", i, Range(r.obs[i]) = ImplSuppressedM(ImplBefore(r.lines, i), TRUE))

\* suppressed rules per line of a real file (tag lines themselves: unconstrained)
CheckReport(r) ==
  LET sts == RefStates(r.kinds)
      Sup(i) == RefSuppressed(sts[i])
      ord(i) == r.kinds[i].k = "code"
      span(v) == v[3]..v[4]
      vt == Range(r.vt)  vn == Range(r.vn)
      key(v) == <<v[1], v[2], v[5]>>
      plain(v) == \A i \in span(v) : i >= 1 /\ i <= Len(r.kinds) /\ ord(i)        \* no tag comment inside the violation's lines
      \* some token of v on an ordinary line carries a matching tag
      tagged(v) == \E i \in span(v) : i >= 1 /\ i <= Len(r.kinds) /\ ord(i) /\ v[1] \in Sup(i)
  IN /\ Chk("C11_OutsideTagsReported", 0, \A v \in vn : (plain(v) /\ ~tagged(v)) => \E w \in vt : key(w) = key(v))
     /\ Chk("C11_TaggedNotReported", 0, \A v \in vt : ~tagged(v))
     /\ Chk("C11_NoNewViolations", 0, \A v \in vt : \E w \in vn : key(w) = key(v))
     /\ Chk("C11_BareOffWrapEmptyReport", 0, ~r.wrapped \/ vt = {})
     /\ Chk("C11_BareOffWrapFixKeepsText", 0, ~r.wrapped \/ r.fixSame)

Init == n \in 1..Len(Recs) /\ (IF Recs[n].t = "stamps" THEN CheckStamps(Recs[n]) ELSE CheckReport(Recs[n]))
Next == FALSE /\ n' = n
Spec == Init /\ [][Next]_n
=============================================================================
