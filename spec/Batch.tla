------------------------------- MODULE Batch -------------------------------
(***************************************************************************)
(* Files x worker processes x order (property C15).                        *)
(*                                                                         *)
(* main() hands (index, file) pairs, in command-line order, to a pool of   *)
(* p worker processes (multiprocessing.Pool.imap) or processes them itself *)
(* when p = 1; results are consumed in submission order.  A worker handles *)
(* several files in sequence and carries its module-level state ("leak")   *)
(* from one to the next.  The result of a task is a function of the file   *)
(* and of the leak state of the worker that runs it.                       *)
(*                                                                         *)
(* Mechanism that makes the property hold: processing a file leaves the    *)
(* leak state unchanged (G = identity).  LeakFree = FALSE is the mutant in *)
(* which a file marks the worker's state.                                  *)
(***************************************************************************)
EXTENDS Naturals, Sequences, FiniteSets, SequencesExt
CONSTANTS Files, Workers, LeakFree
VARIABLES order,     \* the command line: a permutation of Files
          next,      \* index of the next task to hand out
          leak,      \* leak[w]: set of files that have marked worker w's state
          result,    \* result[i]: what task i returned (<<file, leak seen>>) or <<>>
          printed    \* sequence of task indexes in the order their output was printed
vars == <<order, next, leak, result, printed>>

Perms == {s \in [1..Cardinality(Files) -> Files] : \A i, j \in 1..Cardinality(Files) : i # j => s[i] # s[j]}
F(file, lk) == <<file, lk>>                       \* the result may depend on the leak state it meets
G(lk, file) == IF LeakFree THEN lk ELSE lk \cup {file}
L0 == {}

Init == /\ order \in Perms /\ next = 1
        /\ leak = [w \in Workers |-> L0]
        /\ result = [i \in 1..Cardinality(Files) |-> <<>>]
        /\ printed = <<>>
\* a free worker takes the next task (any worker: the pool's scheduling is not specified) and runs it to completion
Process(w) == /\ next <= Len(order)
              /\ result' = [result EXCEPT ![next] = F(order[next], leak[w])]
              /\ leak' = [leak EXCEPT ![w] = G(leak[w], order[next])]
              /\ next' = next + 1
              /\ UNCHANGED <<order, printed>>
\* imap yields results in submission order
Collect == /\ Len(printed) < Len(order)
           /\ result[Len(printed) + 1] # <<>>
           /\ printed' = Append(printed, Len(printed) + 1)
           /\ UNCHANGED <<order, next, leak, result>>
Next == (\E w \in Workers : Process(w)) \/ Collect
Spec == Init /\ [][Next]_vars

C15_LeakConstant == \A w \in Workers : leak[w] = L0
C15_ResultSolo   == \A i \in 1..Len(order) : result[i] # <<>> => result[i] = F(order[i], L0)
C15_OutputOrder  == \A k \in 1..Len(printed) : printed[k] = k
=============================================================================
