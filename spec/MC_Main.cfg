SPECIFICATION FairSpec
CONSTANTS
  MaxFiles = 3
  JobSet = {1, 2, 3}
  InOrderCollect = TRUE
  ExitIsOr = TRUE
  PerFileCfgErr = FALSE
INVARIANT TypeOK
INVARIANT C15_OutputOrder
INVARIANT C15_ResultSolo
INVARIANT C15_ReportAsSerial
INVARIANT C15_DiskAsSerial
INVARIANT C14_ExitIsOr
INVARIANT C14_ArtefactsAreCollected
INVARIANT C19_RejectedGoesOn
INVARIANT C16_RejectedUntouched
INVARIANT C04_NoFixNoWrite
INVARIANT C15_EveryTaskOnce
PROPERTY C19_Terminates
CHECK_DEADLOCK FALSE
