SPECIFICATION Spec
CONSTANTS
  MaxFiles = 3
  JobSet = {1, 2, 3}
  InOrderCollect = TRUE
  ExitIsOr = FALSE
  PerFileCfgErr = FALSE
INVARIANT C14_ExitIsOr
CHECK_DEADLOCK FALSE
