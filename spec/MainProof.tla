----------------------------- MODULE MainProof -----------------------------
(***************************************************************************)
(* TLAPS proof, for ANY number of files and jobs (TLC: <= 4 files, <= 3    *)
(* jobs), that reports are consumed in command-line order                  *)
(* (C15_OutputOrder) when results are collected in order (imap).           *)
(* Checked with:  tlapm MainProof.tla                                      *)
(***************************************************************************)
EXTENDS Main, TLAPS, SequenceTheorems

ASSUME Mech == InOrderCollect = TRUE

Inv == /\ coll \in Seq(Nat)
       /\ \A k \in 1..Len(coll) : coll[k] = k

LEMMA InitInv == Init => Inv
  BY DEF Init, Inv

LEMMA NextInv == Inv /\ [Next]_vars => Inv'
<1> SUFFICES ASSUME Inv, [Next]_vars PROVE Inv'
  OBVIOUS
<1>1 CASE Collect
  <2> PICK i \in 1..N : CollectI(i)
    BY <1>1 DEF Collect
  <2>1 i = Len(coll) + 1 /\ coll' = Append(coll, i)
    BY Mech DEF CollectI, Collectable
  <2>2 i \in Nat
    BY <2>1 DEF Inv
  <2>3 coll' \in Seq(Nat) /\ Len(coll') = Len(coll) + 1
    BY <2>1, <2>2 DEF Inv
  <2>4 \A k \in 1..Len(coll') : coll'[k] = k
    BY <2>1, <2>2, <2>3 DEF Inv
  <2> QED BY <2>3, <2>4 DEF Inv
<1>2 CASE UNCHANGED coll
  BY <1>2 DEF Inv
<1>3 CASE \E w \in 1..jobs : Dispatch(w) \/ WriteBack(w) \/ Finish(w)
  BY <1>3 DEF Inv, Dispatch, WriteBack, Finish, FinishWith
<1>4 CASE EndRun \/ Finalize
  BY <1>4 DEF Inv, EndRun, Finalize
<1>5 CASE UNCHANGED vars
  BY <1>5 DEF Inv, vars
<1> QED BY <1>1, <1>3, <1>4, <1>5 DEF Next

THEOREM OutputOrder == Spec => []C15_OutputOrder
<1>1 Inv => C15_OutputOrder
  BY DEF Inv, C15_OutputOrder
<1>2 Inv /\ [][Next]_vars => []Inv
  BY NextInv, PTL
<1> QED BY InitInv, <1>1, <1>2, PTL DEF Spec
=============================================================================
