---------------------------- MODULE FixPipeline ----------------------------
(***************************************************************************)
(* Design-level model of VSG's fix pipeline on small token lists.          *)
(*                                                                         *)
(* A rule application (rule.fix + vhdlFile.update) picks violation windows *)
(* in the token list, edits each one with an edit its documented class     *)
(* allows, and splices the windows back, last first.  TLC enumerates every *)
(* token list up to MaxLen over a small alphabet, every class, every choice*)
(* of one or two windows and every allowed edit, and checks that the       *)
(* run-level properties (C01 C02 C03 C07 C18) follow from the per-window   *)
(* clauses of Edits.tla plus the mechanisms of the code:                   *)
(*    ReverseSplice    windows are spliced last-first                      *)
(*    AnchorsOnly      windows of one fix overlap only on tokens that      *)
(*                     neither of them edits                               *)
(*    RemapDiscipline  only rules that never move tokens skip the index    *)
(*                     rebuild                                             *)
(*    CaseSparesLits   a case rule never touches a literal                 *)
(* Each mechanism is a constant so that a mutant configuration can switch  *)
(* it off; TLC must then produce a counterexample (spec/Mutant_*.cfg).     *)
(***************************************************************************)
EXTENDS Edits, TLC

CONSTANTS MaxLen, MaxSteps, ReverseSplice, AnchorsOnly, RemapDiscipline, CaseSparesLits

\* ---- a small alphabet of token templates (u filled in later): <<k, lit, nv, xv, r, w>>
ID_a   == 100   ID_A == 101          \* "a" / "A": same normalised value 100
CH_X   == 102                        \* 'X'
LBL    == 103
SP1    == 110   SP2 == 111           \* " " / "  "
CRV    == 112
CMTV   == 113   CMTV2 == 114         \* "--c" / "-- c" : same normalised value 113
R_ID == 200  R_CH == 201  R_KW == 202  R_LBL == 203  R_COL == 204  R_WS == 205  R_CR == 206  R_CMT == 207

T_id    == <<CODE, L_NONE, ID_a, ID_a, R_ID, 1>>
T_ID    == <<CODE, L_NONE, ID_a, ID_A, R_ID, 1>>
T_char  == <<CODE, L_CHAR, CH_X, CH_X, R_CH, 3>>
T_is    == <<CODE, L_NONE, W_IS, W_IS, R_KW, 2>>
T_lbl   == <<CODE, L_NONE, LBL, LBL, R_LBL, 1>>
T_colon == <<CODE, L_NONE, W_COLON, W_COLON, R_COL, 1>>
T_ws    == <<WS, L_NONE, SP1, SP1, R_WS, 1>>
T_ws2   == <<WS, L_NONE, SP1, SP2, R_WS, 2>>
T_cr    == <<CR, L_NONE, CRV, CRV, R_CR, 1>>
T_cmt   == <<CMT, L_NONE, CMTV, CMTV, R_CMT, 3>>
Templates == {T_id, T_char, T_is, T_ws, T_cr, T_cmt, T_lbl}

Tok(u, t) == <<u>> \o t
Classes == {"STRUCT", "WS", "VERT", "CASE"}
Remaps(c) == IF RemapDiscipline THEN c # "CASE" ELSE c \notin {"CASE", "WS"}      \* mutant: a moving rule skips the rebuild

VARIABLES toks, orig, prev, ws, cls, idxRoles, nextU, steps
vars == <<toks, orig, prev, ws, cls, idxRoles, nextU, steps>>

Lists(n) == UNION {[1..m -> Templates] : m \in 1..n}
\* every line ends with a CR and a comment is the last thing on its line (what the parser produces)
WellFormed(s) == /\ s[Len(s)][F_K] = CR
                 /\ CommentEndsLine(s)
                 /\ \A i \in 1..(Len(s) - 1) : ~(s[i][F_K] = WS /\ s[i+1][F_K] = WS)

Init == /\ \E f \in Lists(MaxLen) :
             LET s == [i \in 1..Len(f) |-> Tok(i, f[i])] IN
             /\ WellFormed(s)
             /\ toks = s /\ orig = s /\ prev = s
             /\ nextU = Len(f) + 1
             /\ idxRoles = Proj(s, F_R)
        /\ ws = <<>> /\ cls = "NONE" /\ steps = 0

(***************************************************************************)
(* The edits a window may receive, by class.  An edit is described by the  *)
(* offset (1-based, inside the window) it touches and the resulting post.  *)
(***************************************************************************)
InsAt(s, j, t)  == SubSeq(s, 1, j - 1) \o <<t>> \o SubSeq(s, j, Len(s))        \* t becomes element j
DelAt(s, j)     == SubSeq(s, 1, j - 1) \o SubSeq(s, j + 1, Len(s))
SetAt(s, j, t)  == [s EXCEPT ![j] = t]

\* set of <<touched offsets, post>>
EditsOf(c, pre, u) ==
  CASE c = "WS" ->
         {<<{j}, InsAt(pre, j, Tok(u, T_ws))>> : j \in {jj \in 1..(Len(pre) + 1) : (jj = 1 \/ pre[jj-1][F_K] # WS) /\ (jj > Len(pre) \/ pre[jj][F_K] # WS)}}
         \cup {<<{j}, DelAt(pre, j)>> : j \in {jj \in 1..Len(pre) : pre[jj][F_K] = WS}}
         \cup {<<{j}, SetAt(pre, j, <<pre[j][F_U]>> \o T_ws2)>> : j \in {jj \in 1..Len(pre) : pre[jj][F_K] = WS /\ pre[jj][F_W] = 1}}
         \cup {<<{j}, SetAt(pre, j, <<pre[j][F_U], CMT, L_NONE, CMTV, CMTV2, R_CMT, 4>>)>> : j \in {jj \in 1..Len(pre) : pre[jj][F_K] = CMT /\ pre[jj][F_XV] = CMTV}}
    [] c = "VERT" ->
         {<<{j}, InsAt(pre, j, Tok(u, T_cr))>> : j \in {jj \in 1..Len(pre) : pre[jj][F_K] = CR}}        \* a blank line
         \cup {<<{j}, DelAt(pre, j)>> : j \in {jj \in 2..Len(pre) : pre[jj][F_K] = CR /\ pre[jj-1][F_K] = CR}}
    [] c = "CASE" ->
         {<<{j}, SetAt(pre, j, <<pre[j][F_U]>> \o T_ID)>> : j \in {jj \in 1..Len(pre) : pre[jj][F_K] = CODE /\ pre[jj][F_XV] = ID_a}}
         \cup (IF CaseSparesLits THEN {} ELSE
               {<<{j}, SetAt(pre, j, <<pre[j][F_U], CODE, L_CHAR, CH_X + 50, CH_X + 50, R_CH, 3>>)>> : j \in {jj \in 1..Len(pre) : pre[jj][F_LIT] = L_CHAR}})
    [] c = "STRUCT" ->
         {<<{j}, InsAt(pre, j, Tok(u, T_is))>> : j \in 1..(Len(pre) + 1)}
         \cup {<<{j}, DelAt(pre, j)>> : j \in {jj \in 1..Len(pre) : pre[jj][F_NV] = W_IS}}
    [] OTHER -> {}

Window(s, a, n, e) == [s |-> a, n |-> n, pre |-> SubSeq(s, a + 1, a + n), post |-> e[2], touched |-> {a + j : j \in e[1]}]

\* windows of one fix are produced in ascending order of start; they may share tokens
Overlap(w1, w2) == (w1.s + 1 .. w1.s + w1.n) \cap (w2.s + 1 .. w2.s + w2.n)
Compatible(w1, w2) ==
  /\ w1.s <= w2.s
  /\ (AnchorsOnly => /\ Overlap(w1, w2) \cap (w1.touched \cup w2.touched) = {}
                     \* an insertion "touches" the token it is put in front of; two windows must not both end/begin there
                     /\ w1.s + w1.n <= w2.s + w2.n /\ (w1.s = w2.s => w1.n = w2.n))

ApplyFix ==
  /\ steps < MaxSteps
  /\ \E c \in Classes :
     \E a1 \in 0..(Len(toks) - 1) : \E n1 \in 1..3 :
       /\ a1 + n1 <= Len(toks)
       /\ \E e1 \in EditsOf(c, SubSeq(toks, a1 + 1, a1 + n1), nextU) :
          LET w1 == Window(toks, a1, n1, e1) IN
          \/ /\ ws' = <<w1>>
             /\ cls' = c
          \/ \E a2 \in a1..(Len(toks) - 1) : \E n2 \in 1..3 :
               /\ a2 + n2 <= Len(toks)
               /\ \E e2 \in EditsOf(c, SubSeq(toks, a2 + 1, a2 + n2), nextU + 1) :
                  LET w2 == Window(toks, a2, n2, e2) IN
                  /\ Compatible(w1, w2)
                  /\ (w1.s = w2.s /\ w1.n = w2.n) => w1.post = w2.post       \* a duplicate violation sees the same edit
                  /\ ws' = <<w1, w2>>
                  /\ cls' = c
  /\ prev' = toks
  /\ toks' = IF ReverseSplice THEN ApplyWindows(toks, ws') ELSE ApplyWindowsForward(toks, ws')
  /\ idxRoles' = IF Remaps(cls') THEN Proj(toks', F_R) ELSE idxRoles
  /\ nextU' = nextU + 2
  /\ steps' = steps + 1
  /\ UNCHANGED orig

Next == ApplyFix
Spec == Init /\ [][Next]_vars

(***************************************************************************)
(* Properties                                                              *)
(***************************************************************************)
AllKinds == {CODE, WS, CR, BLANK, CMT, DCMT, PRAGMA, PREPROC, IGN}
Essential(s) == SelectSeq(NV(Code(s)), LAMBDA v : v # W_IS)
LitXV(s)     == XV(SelectSeq(s, LAMBDA t : t[F_LIT] \in ExactLits))

\* C18: the fix overwrote the tokens that were analysed and no others: the result is every window's real change, once
C18_StepIsSumOfHunks == ws # <<>> => StepIsSumOfHunks(prev, toks, ws, AllKinds)
C18_NoCollateral     == ws # <<>> => NoCollateral(Us(prev), Us(toks), ws)
C18_IndexAgrees      == idxRoles = Proj(toks, F_R)
\* C01: the code of the whole run is the original code modulo the optional "is"; literals are exact
C01_CodePreserved    == Essential(toks) = Essential(orig) /\ LitXV(toks) = LitXV(orig)
C01_OnlyStructural   == cls \in {"WS", "VERT", "CASE"} => NV(Code(toks)) = NV(Code(prev))
\* C02
C02_CommentsPreserved == KN(Comments(toks)) = KN(Comments(orig))
\* C03: whole-step effect within the class (follows from the per-window clause and the splice mechanics)
C03_PhaseClass ==
  /\ cls = "WS"   => WsOnly(prev, toks)
  /\ cls = "VERT" => VertOnly(prev, toks)
  /\ cls = "CASE" => CaseOnly(prev, toks, {R_ID}, {})
  /\ cls = "STRUCT" => KN(Comments(prev)) = KN(Comments(toks))
\* C07: a line-local rule changes exactly the lines of the tokens it touched and keeps the line count
C07_LinesTouched ==
  (cls \in {"WS", "CASE"} /\ ws # <<>>) =>
     /\ NumLines(toks) = NumLines(prev)
     /\ ChangedLines(prev, toks) \subseteq UNION {{LineOfPos(prev, IF p > Len(prev) THEN Len(prev) ELSE p) : p \in ws[k].touched} : k \in 1..Len(ws)}
=============================================================================
