--------------------------- MODULE ConvergeProof ---------------------------
(***************************************************************************)
(* TLAPS proof of the convergence argument of Converge.tla for ANY number  *)
(* of rules (TLC checks it for up to 5): with idempotent rules, phase      *)
(* discipline and a canonical write-back, the second run changes nothing.  *)
(* Checked with:  tlapm ConvergeProof.tla                                  *)
(***************************************************************************)
EXTENDS Converge, TLAPS

ASSUME Mechanisms == NRules \in Nat /\ Idempotent = TRUE /\ Discipline = TRUE /\ Canonical = TRUE

TypeOK == /\ breaks \in [Rules -> SUBSET Rules]
          /\ reread = {}
          /\ viol \in SUBSET Rules
          /\ k \in 1..(NRules + 1)
          /\ run \in 1..3
          /\ changed \in [1..2 -> BOOLEAN]

Forward == \A r \in Rules : \A q \in breaks[r] : q > r

Inv == /\ TypeOK
       /\ Forward
       /\ (run = 1 => (\A q \in viol : q >= k) /\ changed[2] = FALSE)     \* every rule that has had its turn in the first run is clean
       /\ (run >= 2 => viol = {} /\ changed[2] = FALSE)  \* the second run finds nothing to do

LEMMA InitInv == Init => Inv
  BY Mechanisms DEF Init, Inv, TypeOK, Forward, Rules

LEMMA NextInv == Inv /\ [Next]_vars => Inv'
<1> SUFFICES ASSUME Inv, [Next]_vars PROVE Inv'
  OBVIOUS
<1>1 CASE Turn
  <2>1 CASE k \in viol
    <3> PICK side \in SUBSET breaks[k] : viol' = (viol \ {k}) \cup side
      BY <1>1, <2>1 DEF Turn
    <3> QED
      BY <1>1, <2>1, Mechanisms DEF Turn, Inv, TypeOK, Forward, Rules
  <2>2 CASE k \notin viol
    <3>1 viol' = viol /\ changed' = changed /\ k' = k + 1 /\ run' = run /\ breaks' = breaks /\ reread' = reread /\ k <= NRules /\ run \in 1..2
      BY <1>1, <2>2 DEF Turn
    <3> QED
      BY <3>1, <2>2, Mechanisms DEF Inv, TypeOK, Forward, Rules
  <2> QED BY <2>1, <2>2
<1>2 CASE EndRun
  <2>1 run \in 1..2 /\ k = NRules + 1 /\ run' = run + 1 /\ k' = 1 /\ breaks' = breaks /\ reread' = reread /\ changed' = changed
    BY <1>2 DEF EndRun
  <2>2 viol' = viol
    BY <1>2 DEF EndRun, Inv, TypeOK
  <2>3 run = 1 => viol = {}
    BY <2>1, Mechanisms DEF Inv, TypeOK, Rules
  <2> QED
    BY <2>1, <2>2, <2>3, Mechanisms DEF Inv, TypeOK, Forward, Rules
<1>3 CASE UNCHANGED vars
  BY <1>3 DEF vars, Inv, TypeOK, Forward, Rules
<1> QED BY <1>1, <1>2, <1>3 DEF Next

LEMMA InvImplies == Inv => C09_SecondFixChangesNothing
  BY DEF Inv, TypeOK, C09_SecondFixChangesNothing

THEOREM Convergence == Spec => []C09_SecondFixChangesNothing
<1>1 Inv /\ [][Next]_vars => []Inv
  BY NextInv, PTL
<1> QED BY InitInv, <1>1, InvImplies, PTL DEF Spec
=============================================================================
