---------------------------- MODULE WriteBackOps ----------------------------
(***************************************************************************)
(* Write-back of a fixed file (property C16, and the last sentence of      *)
(* C04), at the granularity of the system calls VSG makes on the three     *)
(* files involved: the target, <target>.tmp and (with --backup)            *)
(* <target>.bak.                                                           *)
(*                                                                         *)
(* Two layers, used by the design-level model below and by the trace       *)
(* specification WriteBackTrace.tla alike:                                 *)
(*   Effect(disk, ev)      what a system call does to the three files      *)
(*                         (a small model of the OS)                       *)
(*   Allowed(pc, ev) / NextPc   the protocol of vsg/apply_rules.py:        *)
(*        [copy2: open bak, copy, utime, chmod bak]  fix                   *)
(*        stat, open tmp (trunc), write..., close, chmod tmp, replace,     *)
(*        finally remove tmp                                               *)
(* Faults: every call may fail (EACCES = PermissionError is caught and     *)
(* reported, any other error propagates - in both cases the finally block  *)
(* removes the temporary file), the process may be killed at any point, a  *)
(* rule may raise while fixing, a stale .tmp with another mode may exist,  *)
(* the umask may strip bits of the original mode.                          *)
(***************************************************************************)
EXTENDS Naturals, Sequences, FiniteSets

Absent == [content |-> "absent", mode |-> 0]
File(c, m) == [content |-> c, mode |-> m]
\* content classes: "orig" "fixed" "empty" "partial" "other" "absent"

\* an event = one system call with its outcome
\*   [c |-> "openw"|"write"|"copy"|"utime"|"chmod"|"rename"|"unlink", obj |-> "target"|"tmp"|"bak", ok |-> BOOLEAN,
\*    full |-> BOOLEAN (write/copy: the whole intended content is now in the file), mode |-> Nat (chmod), perm |-> BOOLEAN (failure is EACCES/EPERM)]

(***************************************************************************)
(* OS layer                                                                *)
(***************************************************************************)
Effect(d, ev, createMode) ==
  LET f == d[ev.obj] IN
  IF ~ev.ok THEN d            \* a failed (or never executed: killed) call changes nothing; a short write is an ok write that is not "full"
  ELSE CASE ev.c = "openw"  -> [d EXCEPT ![ev.obj] = File("empty", IF f.content = "absent" THEN createMode ELSE f.mode)]      \* O_CREAT|O_TRUNC
         [] ev.c = "write"  -> [d EXCEPT ![ev.obj] = File(IF ev.full THEN (IF ev.obj \in {"tmp", "target"} THEN "fixed" ELSE "other") ELSE "partial", f.mode)]      \* (a write to the target itself is not in the protocol - Step rejects it - but the disk model follows it)
         [] ev.c = "copy"   -> [d EXCEPT ![ev.obj] = File(IF ev.full THEN "orig" ELSE "partial", f.mode)]
         [] ev.c = "utime"  -> d
         [] ev.c = "chmod"  -> [d EXCEPT ![ev.obj] = File(f.content, ev.mode)]
         [] ev.c = "rename" -> [d EXCEPT !["target"] = d["tmp"], !["tmp"] = Absent]                                         \* rename(tmp, target)
         [] ev.c = "unlink" -> [d EXCEPT ![ev.obj] = Absent]
         [] OTHER -> d

(***************************************************************************)
(* Protocol layer: which call may come next, and where it leads            *)
(***************************************************************************)
PCs == {"start", "bak_copy", "bak_utime", "bak_chmod", "fixing", "tmp_write", "tmp_chmod", "rename", "cleanup", "flush", "done", "failed"}

\* <<allowed, next pc>> of event ev in protocol state pc; origMode is what the target's mode was when the run began
Step(pc, ev, backup, origMode) ==
  CASE pc = "start" /\ backup /\ ev.c = "openw" /\ ev.obj = "bak"       -> <<TRUE, IF ev.ok THEN "bak_copy" ELSE "failed">>
    [] pc = "bak_copy"  /\ ev.c = "copy" /\ ev.obj = "bak"              -> <<TRUE, IF ~ev.ok THEN "failed" ELSE IF ev.full THEN "bak_utime" ELSE "bak_copy">>
    [] pc = "bak_utime" /\ ev.c = "utime" /\ ev.obj = "bak"             -> <<TRUE, IF ev.ok THEN "bak_chmod" ELSE "failed">>
    [] pc = "bak_utime" /\ ev.c = "copy" /\ ev.obj = "bak" /\ ~ev.ok    -> <<TRUE, "failed">>       \* the end-of-file probe of the copy loop fails
    [] pc = "bak_chmod" /\ ev.c = "chmod" /\ ev.obj = "bak"             -> <<ev.ok => ev.mode = origMode, IF ev.ok THEN "fixing" ELSE "failed">>
    \* no backup: the first mutating call is the creation of the temporary file
    [] pc \in {"fixing"} \cup (IF backup THEN {} ELSE {"start"}) /\ ev.c = "openw" /\ ev.obj = "tmp"
                                                                        -> <<TRUE, IF ev.ok THEN "tmp_write" ELSE "cleanup">>
    [] pc = "tmp_write" /\ ev.c = "write" /\ ev.obj = "tmp"             -> <<TRUE, IF ~ev.ok THEN "flush" ELSE IF ev.full THEN "tmp_chmod" ELSE "tmp_write">>
    [] pc = "flush" /\ ev.c = "write" /\ ev.obj = "tmp"                 -> <<TRUE, "cleanup">>     \* the buffered writer retries once when the file is closed
    [] pc = "tmp_chmod" /\ ev.c = "chmod" /\ ev.obj = "tmp"             -> <<ev.ok => ev.mode = origMode, IF ev.ok THEN "rename" ELSE "cleanup">>
    [] pc = "rename" /\ ev.c = "rename"                                 -> <<TRUE, "cleanup">>
    \* closing the temporary file (flush) or the backup fails: the exception leads to the finally block / out of copy2
    [] pc \in {"tmp_write", "tmp_chmod"} /\ ev.c = "closefail" /\ ev.obj = "tmp"  -> <<TRUE, "cleanup">>
    [] pc \in {"bak_copy", "bak_utime"} /\ ev.c = "closefail" /\ ev.obj = "bak"   -> <<TRUE, "failed">>
    [] ev.c = "closefail" /\ ev.obj = "target"                                   -> <<TRUE, pc>>          \* a read-only descriptor
    [] pc \in {"cleanup", "flush", "tmp_write", "tmp_chmod", "rename"} /\ ev.c = "unlink" /\ ev.obj = "tmp"
                                                                        -> <<pc \in {"cleanup", "flush"}, "done">>
    [] OTHER -> <<FALSE, pc>>

(***************************************************************************)
(* The properties, as predicates on the disk                               *)
(***************************************************************************)
Atomic(d)            == d["target"].content \in {"orig", "fixed"}
ModeKept(d, origMode) == d["target"].mode = origMode
BackupFaithful(d, origMode) == d["target"].content = "fixed" => d["bak"] = File("orig", origMode)
TmpGone(d)           == d["tmp"].content = "absent"

=============================================================================
